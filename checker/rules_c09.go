package main

// C09 rule families: EXIT, EOFPRED, NILOK, VALIDATE, REJECT, MUST, RECUR, ERRDROP, FLAGS, NARROW, LOOKUP.

import (
	"fmt"
	"go/ast"
	"go/constant"
	"go/parser"
	"go/token"
	"go/types"
	"os"
	"sort"
	"strings"

	"golang.org/x/tools/go/callgraph"
	"golang.org/x/tools/go/ssa"
	"golang.org/x/tools/go/ssa/ssautil"
)

func init() {
	register("EXIT", "in main.main every path on which cobra's Execute returned an error reaches os.Exit with a non-zero constant (or log.Fatal / panic) before returning", 1, ruleExit)
	register("EOFPRED", "every predicate handed to ybase.Reader.NextWhile / DiscardWhile folds to false for the end-of-input sentinel (otherwise the lexer loops for ever on a text cut inside that token)", 5, ruleEOFPred)
	register("NILOK", "no function or closure with results (..nillable.., bool) returns (nil, true)", 3, ruleNilOK)
	register("VALIDATE", "every decoder / constructor of a type that has a validate method calls it on every path that returns a nil error", 10, ruleValidate)
	register("REJECT", "each validator refuses the documented nonsense values: folded with the field bound to the bad constant it cannot reach `return nil`", 6, ruleReject)
	register("MUST", "every function that can panic on its arguments is in the reviewed inventory, and every call site of one is in a package initialiser, passes constants only, or is reviewed with the invariant that guards it", 16, ruleMust)
	register("RECUR", "every cycle of the repo-internal call graph and every condition-only loop is in the reviewed table with its termination measure", 6, ruleRecur)
	register("ERRDROP", "no error returned by a repo function (or by the yaml / io / os decoding calls) is discarded", 60, ruleErrDrop)
	register("FLAGS", "every flag getter in cmd reads a flag that is defined with the same name and type", 19, ruleFlags)
	register("NARROW", "a narrowing integer conversion of a validated field is covered by a bound in the type's validate; any other integer conversion to a type that cannot hold every source value is one of the reviewed (source type -> target type) pairs", 8, ruleNarrow)
	register("LOOKUP", "unknown chord symbols and chords without a valid degree are an error before anything is built, printed or played", 3, ruleLookup)
}

// ---------------------------------------------------------------------------
// helpers

// repoFuncs lists every function of the repo (declared, methods, closures, instantiations), sorted by name.
func (c *Ctx) repoFuncs() []*ssa.Function {
	if c.repoFuncsCache != nil {
		return append([]*ssa.Function(nil), c.repoFuncsCache...)
	}
	var out []*ssa.Function
	for fn := range ssautil.AllFunctions(c.Prog) {
		if c.isRepoFunc(fn) && len(fn.Blocks) > 0 {
			out = append(out, fn)
		}
	}
	names := map[*ssa.Function]string{}
	for _, f := range out {
		names[f] = fname(f)
	}
	sort.Slice(out, func(i, j int) bool {
		if names[out[i]] != names[out[j]] {
			return names[out[i]] < names[out[j]]
		}
		return out[i].Pos() < out[j].Pos()
	})
	c.repoFuncsCache = out
	return append([]*ssa.Function(nil), out...)
}

// srcFuncs: repo functions written in source (no synthetic wrappers, thunks or instantiation shells).
func (c *Ctx) srcFuncs() []*ssa.Function {
	var out []*ssa.Function
	for _, fn := range c.repoFuncs() {
		if fn.Synthetic == "" || strings.HasPrefix(fn.Synthetic, "instance of") || strings.HasPrefix(fn.Synthetic, "range-over-func") {
			out = append(out, fn)
		}
	}
	return out
}

func isInitFunc(fn *ssa.Function) bool {
	for f := fn; f != nil; f = f.Parent() {
		if f.Name() == "init" || strings.HasPrefix(f.Name(), "init#") {
			return true
		}
	}
	return false
}

// exitLike: call never returns and signals failure.
func exitLike(ci ssa.CallInstruction) bool {
	n := calleeName(ci.Common())
	switch n {
	case "os.Exit":
		if k, ok := constInt(ci.Common().Args[0]); ok && k != 0 {
			return true
		}
		return false
	case "log.Fatal", "log.Fatalf", "log.Fatalln", "logx.Panic", "builtin.panic":
		return true
	}
	return false
}

// ---------------------------------------------------------------------------
// EXIT

func ruleExit(c *Ctx) {
	mainFn := c.fn("cmd", "main")
	if mainFn == nil {
		c.missing("cmd.main")
		return
	}
	c.checkExitPaths(mainFn, 0)
}

func (c *Ctx) checkExitPaths(fn *ssa.Function, depth int) {
	var exec *ssa.Call
	allInstrs(fn, func(in ssa.Instruction) {
		if call, ok := in.(*ssa.Call); ok {
			n := calleeName(&call.Call)
			if strings.HasSuffix(n, "cobra.Command.Execute") || strings.HasSuffix(n, "cobra.Command.ExecuteContext") {
				exec = call
			}
		}
	})
	if exec == nil {
		// idiom os.Exit(run()): follow the single repo callee whose result feeds os.Exit
		for _, ci := range callsTo(fn, "os.Exit") {
			if call, ok := stripConv(ci.Common().Args[0]).(*ssa.Call); ok && depth < 2 {
				if callee := staticCallee(&call.Call); callee != nil && c.isRepoFunc(callee) {
					c.checkRunReturns(callee)
					return
				}
			}
		}
		c.bad("cmd.main|Execute", c.pos(fn.Pos()), fname(fn), "no call to cobra's Execute found in main")
		return
	}
	c.site(1)
	// the error branch
	var errIf *ssa.If
	for _, r := range *exec.Referrers() {
		if b, ok := r.(*ssa.BinOp); ok && b.Op == token.NEQ && (isNilConst(b.X) || isNilConst(b.Y)) {
			for _, rr := range *b.Referrers() {
				if iff, ok := rr.(*ssa.If); ok {
					errIf = iff
				}
			}
		}
	}
	key := "cmd.main|Execute-error"
	if errIf == nil {
		c.bad(key, c.pos(exec.Pos()), fname(fn), "the error returned by Execute is never tested: a failing command exits with status 0")
		return
	}
	// every path from the error successor to function exit must pass an exit-like call
	start := errIf.Block().Succs[0]
	seen := map[*ssa.BasicBlock]bool{}
	var leak *ssa.BasicBlock
	var walk func(b *ssa.BasicBlock)
	walk = func(b *ssa.BasicBlock) {
		if seen[b] || leak != nil {
			return
		}
		seen[b] = true
		for _, in := range b.Instrs {
			if ci, ok := in.(ssa.CallInstruction); ok {
				if _, isDefer := in.(*ssa.Defer); !isDefer && exitLike(ci) {
					return
				}
			}
			if _, ok := in.(*ssa.Panic); ok {
				return
			}
			if _, ok := in.(*ssa.Return); ok {
				leak = b
				return
			}
		}
		for _, s := range b.Succs {
			walk(s)
		}
	}
	walk(start)
	if leak != nil {
		c.bad(key, c.pos(exec.Pos()), fname(fn), "when Execute returns an error main logs it and returns normally: the process exits with status 0 although the command failed",
			fmt.Sprintf("path: block %d (err != nil) -> ... -> block %d returns without os.Exit(non-zero)", start.Index, leak.Index))
		return
	}
	c.ok(key, c.pos(exec.Pos()), fname(fn), "every path after a failed Execute reaches os.Exit(non-zero)")
}

// checkRunReturns: idiom `os.Exit(run())`: on the error branch run returns a non-zero constant.
func (c *Ctx) checkRunReturns(fn *ssa.Function) {
	c.site(1)
	key := "cmd.main|Execute-error"
	var exec *ssa.Call
	allInstrs(fn, func(in ssa.Instruction) {
		if call, ok := in.(*ssa.Call); ok && strings.HasSuffix(calleeName(&call.Call), "cobra.Command.Execute") {
			exec = call
		}
	})
	if exec == nil {
		c.bad(key, c.pos(fn.Pos()), fname(fn), "no call to Execute")
		return
	}
	// the error branch of Execute must return a non-zero constant on every path
	var errIf *ssa.If
	for _, r := range *exec.Referrers() {
		if b, ok := r.(*ssa.BinOp); ok && b.Op == token.NEQ && (isNilConst(b.X) || isNilConst(b.Y)) {
			for _, rr := range *b.Referrers() {
				if iff, ok := rr.(*ssa.If); ok {
					errIf = iff
				}
			}
		}
	}
	if errIf == nil {
		c.bad(key, c.pos(exec.Pos()), fname(fn), "the error returned by Execute is never tested: a failing command exits with status 0")
		return
	}
	good := true
	seen := map[*ssa.BasicBlock]bool{}
	var walk func(b *ssa.BasicBlock)
	walk = func(b *ssa.BasicBlock) {
		if seen[b] {
			return
		}
		seen[b] = true
		for _, in := range b.Instrs {
			if r, ok := in.(*ssa.Return); ok {
				k, isK := constInt(retVal(r, 0))
				if !isK || k == 0 {
					good = false
				}
				return
			}
			if ci, ok := in.(ssa.CallInstruction); ok {
				if _, isDefer := in.(*ssa.Defer); !isDefer && exitLike(ci) {
					return
				}
			}
		}
		for _, s := range b.Succs {
			walk(s)
		}
	}
	walk(errIf.Block().Succs[0])
	c.check(good, key, c.pos(exec.Pos()), fname(fn), "run returns a non-zero status on every path after a failed Execute", "after a failed Execute run can return status 0 (or a non-constant status): the process exits 0 although the command failed")
}

// ---------------------------------------------------------------------------
// EOFPRED

func ruleEOFPred(c *Ctx) {
	_ = 0
	eof := int64(-1)
	if p, ok := c.AllPkgs["github.com/berquerant/ybase"]; ok {
		if k, ok := p.Types.Scope().Lookup("EOF").(*types.Const); ok {
			eof, _ = constant.Int64Val(k.Val())
		}
	}
	for _, fn := range c.srcFuncs() {
		for _, ci := range callsIn(fn) {
			cc := ci.Common()
			if !cc.IsInvoke() {
				continue
			}
			m := cc.Method.Name()
			if m != "NextWhile" && m != "DiscardWhile" {
				continue
			}
			if !strings.Contains(cc.Value.Type().String(), "ybase.") {
				continue
			}
			pred := cc.Args[0]
			// the predicate may be a parameter of a shared helper (scanRun(r, name, accept)): judge what each caller passes
			var preds []ssa.Value
			if par, ok := pred.(*ssa.Parameter); ok && par.Parent() == fn {
				idx := -1
				for i, q := range fn.Params {
					if q == par {
						idx = i
					}
				}
				for _, g := range c.srcFuncs() {
					for _, cj := range callsIn(g) {
						if callee := staticCallee(cj.Common()); callee != nil && unbound(callee) == fn && idx >= 0 && idx < len(cj.Common().Args) {
							preds = append(preds, cj.Common().Args[idx])
						}
					}
				}
			}
			if len(preds) == 0 {
				preds = []ssa.Value{pred}
			}
			for _, pred := range preds {
				c.site(1)
				pf := funcOfValue(pred)
				pname := "?"
				if pf != nil {
					pname = fname(unbound(pf))
				}
				key := fmt.Sprintf("%s|%s|%s", fname(fn), m, pname)
				if pf == nil {
					c.undec(key, c.pos(ci.Pos()), fname(fn), "predicate is not a function value known at this site")
					continue
				}
				args := []fval{{k: constant.MakeInt64(eof), t: types.Typ[types.Rune]}}
				target := pf
				if strings.HasSuffix(pf.Name(), "$bound") {
					target = unbound(pf)
					args = append([]fval{top}, args...)
				}
				r, err := c.newFolder().foldCall(target, args)
				switch {
				case err != nil || r.k == nil || r.k.Kind() != constant.Bool:
					c.undec(key, c.pos(ci.Pos()), fname(fn), fmt.Sprintf("predicate %s does not fold at EOF: %v", pname, err))
				case constant.BoolVal(r.k):
					c.bad(key, c.pos(ci.Pos()), fname(fn), fmt.Sprintf("predicate %s is true for ybase.EOF (%d): at end of input Peek keeps returning EOF and %s never stops — a text that ends inside this token hangs crd", pname, eof, m),
						fmt.Sprintf("fold: %s(EOF) = true", pname))
				default:
					c.ok(key, c.pos(ci.Pos()), fname(fn), pname+"(EOF) = false")
				}
			}
		}
	}
}

// ---------------------------------------------------------------------------
// NILOK

func nillable(t types.Type) bool {
	switch t.Underlying().(type) {
	case *types.Pointer, *types.Interface, *types.Slice, *types.Map, *types.Signature, *types.Chan:
		return true
	}
	return false
}

func (c *Ctx) nilOKScan(fns []*ssa.Function, report func(fn *ssa.Function, r *ssa.Return)) int {
	examined := 0
	for _, fn := range fns {
		res := fn.Signature.Results()
		n := res.Len()
		if n < 2 {
			continue
		}
		if b, ok := res.At(n - 1).Type().Underlying().(*types.Basic); !ok || b.Kind() != types.Bool {
			continue
		}
		hasNillable := false
		for i := 0; i < n-1; i++ {
			hasNillable = hasNillable || nillable(res.At(i).Type())
		}
		if !hasNillable {
			continue
		}
		examined++
		for _, r := range returnsOf(fn) {
			if ok, isC := constBool(retVal(r, n-1)); !isC || !ok {
				continue
			}
			for i := 0; i < n-1; i++ {
				if nillable(res.At(i).Type()) && isNilConst(retVal(r, i)) {
					report(fn, r)
				}
			}
		}
	}
	return examined
}

const nilOKControl = `package control
type T struct{}
func lookup(k string) (*T, bool) {
	switch k {
	case "a":
		return &T{}, true
	default:
		return nil, true
	}
}`

// checkTypedNilInterfaces: a pointer that may be nil (the nil constant, or a variable that is nil on some path) is not
// wrapped into one of the repository's own interface types: the interface value is then not nil, a later `x == nil` test
// never fires and the first method call dereferences nil (value receiver) or runs on nil.
func (c *Ctx) checkTypedNilInterfaces() {
	var mayBeNil func(v ssa.Value, depth int) bool
	mayBeNil = func(v ssa.Value, depth int) bool {
		if depth > 3 {
			return false
		}
		switch x := v.(type) {
		case *ssa.Const:
			return x.Value == nil
		case *ssa.Phi:
			for _, e := range x.Edges {
				if mayBeNil(e, depth+1) {
					return true
				}
			}
		}
		return false
	}
	n := 0
	for _, fn := range c.srcFuncs() {
		allInstrs(fn, func(in ssa.Instruction) {
			mi, ok := in.(*ssa.MakeInterface)
			if !ok {
				return
			}
			if _, isPtr := mi.X.Type().Underlying().(*types.Pointer); !isPtr {
				return
			}
			named, ok := mi.Type().(*types.Named)
			if !ok || named.Obj().Pkg() == nil || !strings.HasPrefix(named.Obj().Pkg().Path(), modulePath) {
				return
			}
			n++
			key := "typed-nil|" + c.ownerName(fn) + "|" + typeName(mi.Type())
			if mayBeNil(mi.X, 0) {
				c.bad(key, c.pos(mi.Pos()), fname(fn), fmt.Sprintf("a %s that is nil on some path is wrapped into the interface %s: the interface value is not nil, so the caller's `== nil` test does not fire and the method call that follows runs on a nil pointer (crd panics instead of reporting an error)", typeName(mi.X.Type()), typeName(mi.Type())))
			}
		})
	}
	c.site(1)
	c.ok("typed-nil|summary", "", "", fmt.Sprintf("%d conversions of a pointer into one of the repository's interface types, none of a pointer that may be nil", n))
}

func ruleNilOK(c *Ctx) {
	c.checkTypedNilInterfaces()
	flagged := map[*ssa.Function]bool{}
	fns := c.srcFuncs()
	n := c.nilOKScan(fns, func(fn *ssa.Function, r *ssa.Return) {
		flagged[fn] = true
		c.bad(fname(fn)+"|nil,true", c.pos(r.Pos()), fname(fn), "returns (nil, true): the caller is told the lookup succeeded and dereferences nil (e.g. an unknown `write conv -c` command crashes with SIGSEGV)")
	})
	c.site(n)
	// one obligation per examined function
	res := 0
	for _, fn := range fns {
		sig := fn.Signature.Results()
		if sig.Len() >= 2 && !flagged[fn] {
			if b, ok := sig.At(sig.Len() - 1).Type().Underlying().(*types.Basic); ok && b.Kind() == types.Bool {
				for i := 0; i < sig.Len()-1; i++ {
					if nillable(sig.At(i).Type()) {
						c.ok(fname(fn), c.pos(fn.Pos()), fname(fn), "no (nil, true) return")
						res++
						break
					}
				}
			}
		}
	}
	// positive control: the matcher must fire on a known bad function
	ctl, err := buildControl(nilOKControl)
	hit := 0
	if err == nil {
		var cf []*ssa.Function
		for _, m := range ctl.Members {
			if f, ok := m.(*ssa.Function); ok {
				cf = append(cf, f)
			}
		}
		c.nilOKScan(cf, func(*ssa.Function, *ssa.Return) { hit++ })
	}
	c.check(hit == 1, "control", "", "", "positive control matched", fmt.Sprintf("positive control did not match (err=%v): the matcher is broken", err))
}

// buildControl type-checks and builds SSA for an import-free source snippet.
func buildControl(src string) (*ssa.Package, error) {
	fset := token.NewFileSet()
	f, err := parser.ParseFile(fset, "control.go", src, 0)
	if err != nil {
		return nil, err
	}
	pkg := types.NewPackage("control", "control")
	sp, _, err := ssautil.BuildPackage(&types.Config{}, fset, pkg, []*ast.File{f}, ssa.SanityCheckFunctions)
	return sp, err
}

// ---------------------------------------------------------------------------
// VALIDATE

// validatedTypes: named struct/basic types of the repo with a method validate/Validate() error.
func (c *Ctx) validatedTypes() map[*types.Named]*types.Func {
	out := map[*types.Named]*types.Func{}
	for _, p := range c.Pkgs {
		sc := p.Types.Scope()
		for _, n := range sc.Names() {
			tn, ok := sc.Lookup(n).(*types.TypeName)
			if !ok {
				continue
			}
			named, ok := tn.Type().(*types.Named)
			if !ok {
				continue
			}
			for i := 0; i < named.NumMethods(); i++ {
				m := named.Method(i)
				if m.Name() != "validate" && m.Name() != "Validate" {
					continue
				}
				sig := m.Type().(*types.Signature)
				if sig.Params().Len() == 0 && sig.Results().Len() == 1 && isErrorType(sig.Results().At(0).Type()) {
					out[named] = m
				}
			}
		}
	}
	return out
}

// errCovered: every Return of fn whose error result may be nil is preceded by (or is) the validator call.
func (c *Ctx) errCovered(fn *ssa.Function, errIdx int, isValidatorCall func(*ssa.Call) bool) (bool, string) {
	var vcalls []*ssa.Call
	allInstrs(fn, func(in ssa.Instruction) {
		if call, ok := in.(*ssa.Call); ok && isValidatorCall(call) {
			vcalls = append(vcalls, call)
		}
	})
	for _, r := range returnsOf(fn) {
		e := retVal(r, errIdx)
		for _, leaf := range phiLeaves(e) {
			if call, ok := leaf.(*ssa.Call); ok && isValidatorCall(call) {
				continue // returns the validator's verdict
			}
			if ex, ok := leaf.(*ssa.Extract); ok {
				if call, ok := ex.Tuple.(*ssa.Call); ok && isValidatorCall(call) {
					continue
				}
			}
			if !isNilConst(leaf) && c.knownNonNil(leaf, r) {
				continue // an error path
			}
			// nil (or possibly nil): a validator call must dominate and its verdict must have been tested
			covered := false
			for _, vc := range vcalls {
				if !dominatesInstr(vc, r) {
					continue
				}
				for _, ref := range *vc.Referrers() {
					if b, ok := ref.(*ssa.BinOp); ok && (b.Op == token.NEQ || b.Op == token.EQL) {
						covered = true
					}
					if ex, ok := ref.(*ssa.Extract); ok && isErrorType(ex.Type()) && ex.Referrers() != nil {
						for _, r2 := range *ex.Referrers() {
							if b, ok := r2.(*ssa.BinOp); ok && (b.Op == token.NEQ || b.Op == token.EQL) {
								covered = true
							}
						}
					}
				}
			}
			if !covered {
				return false, c.pos(r.Pos())
			}
		}
	}
	return true, ""
}

// knownNonNil: value v is tested `v != nil` by an If whose true branch dominates the return.
func (c *Ctx) knownNonNil(v ssa.Value, r *ssa.Return) bool {
	refs := v.Referrers()
	if refs == nil {
		return false
	}
	for _, ref := range *refs {
		b, ok := ref.(*ssa.BinOp)
		if !ok || b.Op != token.NEQ || !(isNilConst(b.X) || isNilConst(b.Y)) {
			continue
		}
		for _, rr := range *b.Referrers() {
			if iff, ok := rr.(*ssa.If); ok {
				t := iff.Block().Succs[0]
				if t == r.Block() || t.Dominates(r.Block()) {
					return true
				}
			}
		}
	}
	return false
}

func ruleValidate(c *Ctx) {
	vts := c.validatedTypes()
	var names []string
	byName := map[string]*types.Named{}
	for t := range vts {
		n := typeName(t)
		names = append(names, n)
		byName[n] = t
	}
	sort.Strings(names)
	for _, tn := range names {
		T := byName[tn]
		vm := vts[T]
		vfn := c.Prog.FuncValue(vm)
		// constructors of T in its own package that themselves validate count as validators for the decoders
		var validatingCtors []*ssa.Function
		isV0 := func(call *ssa.Call) bool {
			f := staticCallee(&call.Call)
			return f != nil && (f == vfn || f.Origin() == vfn)
		}
		if spT := c.SSA[T.Obj().Pkg().Path()]; spT != nil {
			for _, mem := range spT.Members {
				f, ok := mem.(*ssa.Function)
				if !ok || len(f.Blocks) == 0 {
					continue
				}
				res := f.Signature.Results()
				if res.Len() == 2 && isErrorType(res.At(1).Type()) && namedOf(res.At(0).Type()) == T {
					if ok, _ := c.errCovered(f, 1, isV0); ok {
						validatingCtors = append(validatingCtors, f)
					}
				}
			}
		}
		isV := func(call *ssa.Call) bool {
			if isV0(call) {
				return true
			}
			f := staticCallee(&call.Call)
			for _, vc := range validatingCtors {
				if f == vc {
					return true
				}
			}
			return false
		}
		pkgPath := T.Obj().Pkg().Path()
		sp := c.SSA[pkgPath]
		// (a) Unmarshal* methods on *T
		ms := c.Prog.MethodSets.MethodSet(types.NewPointer(T))
		ownDecoder := false
		for i := 0; i < ms.Len(); i++ {
			sel := ms.At(i)
			if !strings.HasPrefix(sel.Obj().Name(), "Unmarshal") {
				continue
			}
			if len(sel.Index()) != 1 {
				// promoted from an embedded field: it decodes the embedded part and knows nothing of T's validate
				c.site(1)
				c.bad(tn+"."+sel.Obj().Name()+"|promoted", c.pos(T.Obj().Pos()), tn, fmt.Sprintf("%s is decoded by %s of an embedded type, which does not call %s.%s: invalid values (e.g. 0) are accepted from YAML", tn, sel.Obj().Name(), tn, vm.Name()))
				continue
			}
			ownDecoder = true
			fn := c.Prog.FuncValue(sel.Obj().(*types.Func))
			if fn == nil || len(fn.Blocks) == 0 {
				continue
			}
			c.site(1)
			ok, where := c.errCovered(fn, 0, isV)
			c.check(ok, fname(fn), c.pos(fn.Pos()), fname(fn), "decoder validates before returning nil", fmt.Sprintf("decoder of %s can return a nil error (at %s) without calling %s: invalid values (e.g. 0) are accepted from YAML", tn, where, vm.Name()))
		}
		// ... and a validated type that is read from YAML inside another value has a decoder of its own (field-by-field
		// decoding never calls validate); elements of a top-level decoded slice are judged with their slice decoder (c)
		if !ownDecoder && c.decodedInside()[T] {
			c.site(1)
			c.bad(tn+"|decoder", c.pos(T.Obj().Pos()), tn, fmt.Sprintf("%s is read from YAML as part of another value but has no decoder of its own: its fields are filled in directly and %s is never called (invalid values are accepted from YAML)", tn, vm.Name()))
		}
		// (b) constructors in the declaring package: func(...) (T|*T, error)
		for _, mem := range sp.Members {
			fn, ok := mem.(*ssa.Function)
			if !ok || len(fn.Blocks) == 0 {
				continue
			}
			res := fn.Signature.Results()
			if res.Len() != 2 || !isErrorType(res.At(1).Type()) || namedOf(res.At(0).Type()) != T {
				continue
			}
			if _, isSlice := res.At(0).Type().Underlying().(*types.Slice); isSlice {
				continue
			}
			// parsers that delegate to another constructor are covered through it
			c.site(1)
			ok2, where := c.errCovered(fn, 1, isV)
			if !ok2 {
				// delegation: returns the result of another (T, error) function of the same package directly
				if c.delegatesTo(fn, T) {
					c.ok(fname(fn), c.pos(fn.Pos()), fname(fn), "delegates to a validating constructor")
					continue
				}
			}
			c.check(ok2, fname(fn), c.pos(fn.Pos()), fname(fn), "constructor validates before returning nil", fmt.Sprintf("constructor of %s can return a nil error (at %s) without calling %s", tn, where, vm.Name()))
		}
		// (c) slice decoders: yaml.Unmarshal into []T then validate each element in a loop (generic helpers are judged per instantiation)
		var decoders []*ssa.Function
		for _, fn := range c.srcFuncs() {
			if fn.Parent() == nil && len(fn.Blocks) > 0 && (fn.Pkg == sp || (fn.Origin() != nil && fn.Origin().Pkg == sp)) {
				decoders = append(decoders, fn)
			}
		}
		sort.Slice(decoders, func(i, j int) bool { return decoders[i].String() < decoders[j].String() })
		for _, fn := range decoders {
			res := fn.Signature.Results()
			if res.Len() != 2 || !isErrorType(res.At(1).Type()) {
				continue
			}
			sl, ok := res.At(0).Type().Underlying().(*types.Slice)
			if !ok || namedOf(sl.Elem()) != T {
				continue
			}
			if len(callsTo(fn, "gopkg.in/yaml.v3.Unmarshal")) == 0 {
				continue
			}
			c.site(1)
			inLoopCall := false
			var vcall *ssa.Call
			allInstrs(fn, func(in ssa.Instruction) {
				if call, ok := in.(*ssa.Call); ok && isV(call) && inLoop(call.Block()) {
					inLoopCall = true
					vcall = call
				}
			})
			good := inLoopCall
			why := "never calls " + vm.Name() + " on the decoded elements"
			if inLoopCall {
				// verdict returned on failure: straight away, or collected (appended to an error list) so that no later
				// element can overwrite it
				ret := c.errorReturned(vcall)
				if !ret {
					for _, ref := range *vcall.Referrers() {
						if mi, ok := ref.(*ssa.MakeInterface); ok {
							_ = mi
						}
					}
					ret = dataReaches(vcall, func(in ssa.Instruction) bool {
						call, ok := in.(*ssa.Call)
						return ok && calleeName(&call.Call) == "builtin.append"
					})
				}
				// and the loop ranges over the whole decoded slice (range loop: index compared with len)
				good = ret && c.loopCoversSlice(vcall.Block())
				why = "the element validation loop does not cover every decoded element, or its verdict is not returned"
			}
			key := fname(fn)
			if fn.Origin() != nil && fn.Origin() != fn {
				key += "[" + tn + "]"
			}
			c.check(good, key, c.pos(fn.Pos()), fname(fn), "every decoded element is validated", fmt.Sprintf("%s decodes []%s from YAML but %s", key, tn, why))
		}
	}
	// Map.validate looks at every entry of the chord table: the reference checks are not skipped for some entries
	if v := c.fn("chord", "Map.validate"); v != nil {
		c.site(1)
		tr := c.plainTracer()
		problem := ""
		nChecks := 0
		for _, f := range withClosures(v) {
			allInstrs(f, func(in ssa.Instruction) {
				// an existence check: a comma-ok lookup in one of the two tables, directly or through an accessor method
				var site ssa.Instruction
				fld := ""
				if lk, ok := in.(*ssa.Lookup); ok && lk.CommaOk {
					if n, _, isField := loadedField(lk.X); isField {
						fld, site = n, lk
					}
				} else if call, ok := in.(*ssa.Call); ok {
					if callee := staticCallee(&call.Call); callee != nil && c.isRepoFunc(callee) && callee.Pkg == f.Pkg {
						if n := accessorOfField(callee); n != "" {
							fld, site = n, call
						} else if n, pi := c.referenceLookupHelper(callee); n != "" && pi < len(call.Call.Args) {
							// a helper that takes the chord and looks up what it extends: the existence check of `extends`
							// when the chord handed over is an entry of the table (the walk along the links is judged by RECUR)
							if c.isTableEntry(tr, lval{call.Call.Args[pi], f, nil}) {
								nChecks++
								for _, g := range guardsOf(call.Block(), lval{nil, f, nil}) {
									if !rangeGuard(tr.trace(g.cond).v) {
										problem = "the check of a chord's " + n + " reference is skipped under a further condition (" + c.pos(call.Pos()) + "): some entries of the table are not validated"
									}
								}
							}
							return
						}
					}
				}
				if site == nil || (fld != "attributes" && fld != "chords") {
					return
				}
				lk := site
				// only the existence checks outside the cycle walk (that walk is judged by RECUR)
				if lp := innermostLoop(lk.Block()); lp != nil {
					// the walk along `extends` links: a loop variable that is replaced by the parent's Extends on every round
					isWalk := false
					for b := range lp {
						isHeader := true
						for o := range lp {
							if !(b == o || b.Dominates(o)) {
								isHeader = false
							}
						}
						if !isHeader {
							continue
						}
						for _, in2 := range b.Instrs {
							phi, ok := in2.(*ssa.Phi)
							if !ok {
								break
							}
							for i, e := range phi.Edges {
								if lp[b.Preds[i]] {
									if n, _, ok := loadedFieldOrField(e); ok && n == "Extends" {
										isWalk = true
									}
								}
							}
						}
					}
					if isWalk {
						return
					}
				}
				nChecks++
				// what is looked up is the reference itself: the chord's `extends`, an element of its attribute list
				var keyv ssa.Value
				switch x := site.(type) {
				case *ssa.Lookup:
					keyv = x.Index
				case *ssa.Call:
					if len(x.Call.Args) >= 2 {
						keyv = x.Call.Args[1]
					}
				}
				if keyv != nil {
					kl := tr.trace(lval{keyv, f, nil})
					if fld == "chords" {
						if n, _, ok := loadedFieldOrField(kl.v); !ok || n != "Extends" {
							problem = "the existence check on the chord table (" + c.pos(lk.Pos()) + ") does not look up the chord's `extends` name: a dangling parent is not reported"
						}
					} else {
						ac := &affCtx{c: c, fn: f, alias: map[ssa.Value]string{}}
						if d := ac.describe(kl.v); !strings.Contains(d, ".Attributes") {
							problem = "the existence check on the attribute table (" + c.pos(lk.Pos()) + ") does not look up the names in the chord's attribute list (" + d + "): an unknown attribute is not reported"
						}
					}
				}
				for _, g := range guardsOf(lk.Block(), lval{nil, f, nil}) {
					gl := tr.trace(g.cond)
					switch x := gl.v.(type) {
					case *ssa.Extract:
						if _, isNext := x.Tuple.(*ssa.Next); isNext {
							continue // range over a map / string: more elements
						}
					case *ssa.BinOp:
						if x.Op == token.LSS {
							continue // range over a slice: index < len
						}
						if s, ok := constString(x.Y); ok && s == "" {
							if n, _, ok := loadedFieldOrField(x.X); ok && n == "Extends" {
								continue // `extends` is optional
							}
						}
					}
					problem = "the check of a chord's " + fld + " reference is skipped under a further condition (" + c.pos(lk.Pos()) + "): some entries of the table are not validated"
				}
			})
		}
		if nChecks < 2 {
			problem = fmt.Sprintf("%d reference checks found, want the attribute check and the extends check", nChecks)
		}
		c.check(problem == "", "chord.Map.validate|every-entry", c.pos(v.Pos()), fname(v), fmt.Sprintf("%d reference checks, each applied to every entry", nChecks), fname(v)+": "+problem)
	}
	// Map: only NewMap constructs it
	c.checkSoleConstructor("chord", "Map", "NewMap")
}

// rangeGuard: the condition of a range loop (more elements), not a condition on the element.
func rangeGuard(v ssa.Value) bool {
	switch x := v.(type) {
	case *ssa.Extract:
		_, isNext := x.Tuple.(*ssa.Next)
		return isNext
	case *ssa.BinOp:
		return x.Op == token.LSS
	}
	return false
}

// isTableEntry: the value is an element obtained by ranging over a map (the chord table).
func (c *Ctx) isTableEntry(tr *tracer, l lval) bool {
	v := tr.trace(l).v
	for i := 0; i < 6; i++ {
		switch x := v.(type) {
		case *ssa.Extract:
			_, isNext := x.Tuple.(*ssa.Next)
			return isNext && x.Index == 2
		case *ssa.UnOp:
			if x.Op != token.MUL {
				return false
			}
			// a local that holds the range value
			a, ok := x.X.(*ssa.Alloc)
			if !ok {
				return false
			}
			var src ssa.Value
			for _, r := range *a.Referrers() {
				if st, ok := r.(*ssa.Store); ok && st.Addr == ssa.Value(a) {
					if src != nil {
						return false
					}
					src = st.Val
				}
			}
			if src == nil {
				return false
			}
			v = src
		default:
			return false
		}
	}
	return false
}

// referenceLookupHelper: fn takes a chord and answers (parent, found) by looking up the chord's Extends in the chord
// table; the only way round the lookup is an empty Extends. Returns the table's field name and the index of the chord
// parameter.
func (c *Ctx) referenceLookupHelper(fn *ssa.Function) (string, int) {
	if fn == nil || len(fn.Blocks) == 0 || fn.Signature.Results().Len() != 2 || len(callsIn(fn)) != 0 {
		return "", -1
	}
	if b, ok := fn.Signature.Results().At(1).Type().Underlying().(*types.Basic); !ok || b.Kind() != types.Bool {
		return "", -1
	}
	// parameters spilled into locals
	spill := map[ssa.Value]int{}
	for i, p := range fn.Params {
		spill[p] = i
		for _, r := range *p.Referrers() {
			if st, ok := r.(*ssa.Store); ok && st.Val == ssa.Value(p) {
				if a, ok := st.Addr.(*ssa.Alloc); ok {
					spill[a] = i
				}
			}
		}
	}
	extendsOf := func(v ssa.Value) int {
		n, base, ok := loadedFieldOrField(v)
		if !ok || n != "Extends" {
			return -1
		}
		if u, ok := base.(*ssa.UnOp); ok && u.Op == token.MUL {
			base = u.X
		}
		if i, ok := spill[base]; ok {
			return i
		}
		return -1
	}
	var lk *ssa.Lookup
	n := 0
	allInstrs(fn, func(in ssa.Instruction) {
		if l, ok := in.(*ssa.Lookup); ok {
			if _, isMap := l.X.Type().Underlying().(*types.Map); isMap {
				n++
				lk = l
			}
		}
	})
	if n != 1 || !lk.CommaOk {
		return "", -1
	}
	fld, _, isField := loadedField(lk.X)
	pi := extendsOf(lk.Index)
	if !isField || fld != "chords" || pi < 0 {
		return "", -1
	}
	for _, r := range returnsOf(fn) {
		switch x := retVal(r, 1).(type) {
		case *ssa.Const:
			if x.Value == nil || constant.BoolVal(x.Value) {
				return "", -1
			}
		case *ssa.Extract:
			if x.Tuple != ssa.Value(lk) || x.Index != 1 {
				return "", -1
			}
		default:
			return "", -1
		}
	}
	for _, g := range guardsOf(lk.Block(), lval{nil, fn, nil}) {
		b, ok := g.cond.v.(*ssa.BinOp)
		if !ok {
			return "", -1
		}
		if s, isStr := constString(b.Y); !isStr || s != "" || extendsOf(b.X) != pi {
			return "", -1
		}
	}
	return fld, pi
}

// sliceLenInterval: the length of slice v at block blk of fn lies in [lo, hi]: what the maker of the slice promises
// (strings.SplitN with a separator gives 1..n pieces), narrowed by every test of len(v) on the way to blk; for a
// parameter of an unexported function that is only called directly, what holds at every call site.
func (c *Ctx) sliceLenInterval(fn *ssa.Function, v ssa.Value, blk *ssa.BasicBlock, depth int) (int64, int64) {
	ac := &affCtx{c: c, fn: fn, alias: map[ssa.Value]string{}}
	xs := ac.describe(v)
	// the length is somewhere in [lo, hi]: what the maker of the slice promises (strings.SplitN with a separator
	// gives 1..n pieces), narrowed by every test of len(X) on the way
	lo, hi := int64(0), int64(1)<<40
	if call, ok := v.(*ssa.Call); ok {
		switch calleeName(&call.Call) {
		case "strings.SplitN":
			if sep, ok := constString(call.Call.Args[1]); ok && sep != "" {
				if n, ok := constInt(call.Call.Args[2]); ok && n > 0 {
					lo, hi = 1, n
				}
			}
		case "strings.Split":
			if sep, ok := constString(call.Call.Args[1]); ok && sep != "" {
				lo = 1
			}
		}
	}
	for _, pc := range pathConds(blk) {
		cmp, ok := pc.cond.(*ssa.BinOp)
		if !ok {
			continue
		}
		x, y, op := cmp.X, cmp.Y, cmp.Op
		if _, isConst := x.(*ssa.Const); isConst {
			x, y = y, x
			switch op {
			case token.LSS:
				op = token.GTR
			case token.GTR:
				op = token.LSS
			case token.LEQ:
				op = token.GEQ
			case token.GEQ:
				op = token.LEQ
			}
		}
		lc, ok := x.(*ssa.Call)
		if !ok || calleeName(&lc.Call) != "builtin.len" || ac.describe(lc.Call.Args[0]) != xs {
			continue
		}
		n, ok := constInt(y)
		if !ok {
			continue
		}
		if !pc.side {
			// the negation of the test
			switch op {
			case token.EQL:
				op = token.NEQ
			case token.NEQ:
				op = token.EQL
			case token.GTR:
				op = token.LEQ
			case token.GEQ:
				op = token.LSS
			case token.LSS:
				op = token.GEQ
			case token.LEQ:
				op = token.GTR
			}
		}
		switch op {
		case token.EQL:
			lo, hi = max(lo, n), min(hi, n)
		case token.NEQ:
			if lo == n {
				lo++
			}
			if hi == n {
				hi--
			}
		case token.GTR:
			lo = max(lo, n+1)
		case token.GEQ:
			lo = max(lo, n)
		case token.LSS:
			hi = min(hi, n-1)
		case token.LEQ:
			hi = min(hi, n)
		}
	}
	if p, ok := v.(*ssa.Parameter); ok && depth < 3 && !isExportedFn(fn) && fn.Parent() == nil {
		pi := paramIndexOf(fn, p)
		sites := 0
		clo, chi := int64(1)<<40, int64(0)
		okAll := pi >= 0
		for _, caller := range c.srcFuncs() {
			for _, ci := range callsIn(caller) {
				if staticCallee(ci.Common()) != fn {
					// the function used as a value: callers unknown
					for _, a := range ci.Common().Args {
						if a == ssa.Value(fn) {
							okAll = false
						}
					}
					continue
				}
				if pi >= len(ci.Common().Args) {
					okAll = false
					continue
				}
				sites++
				l, h := c.sliceLenInterval(caller, ci.Common().Args[pi], ci.Block(), depth+1)
				clo, chi = min(clo, l), max(chi, h)
			}
		}
		if okAll && sites > 0 && !c.usedAsValue(fn) {
			lo, hi = max(lo, clo), min(hi, chi)
		}
	}
	return lo, hi
}

// usedAsValue: the function is referred to other than as the callee of a direct call (stored, passed, bound).
func (c *Ctx) usedAsValue(fn *ssa.Function) bool {
	for _, f := range c.srcFuncs() {
		used := false
		allInstrs(f, func(in ssa.Instruction) {
			for _, op := range in.Operands(nil) {
				if *op != ssa.Value(fn) {
					continue
				}
				if ci, ok := in.(ssa.CallInstruction); ok && ci.Common().Value == ssa.Value(fn) {
					isArg := false
					for _, a := range ci.Common().Args {
						if a == ssa.Value(fn) {
							isArg = true
						}
					}
					if !isArg {
						continue
					}
				}
				used = true
			}
		})
		if used {
			return true
		}
	}
	return false
}

// delegatesTo: fn returns (x, err) straight from another function returning (T, error).
func (c *Ctx) delegatesTo(fn *ssa.Function, T *types.Named) bool {
	for _, r := range returnsOf(fn) {
		if len(r.Results) != 2 {
			return false
		}
		e := r.Results[1]
		if isNilConst(e) {
			return false
		}
	}
	return false
}

// loopCoversSlice: the innermost loop containing b is a counted loop 0..len(x)-1 (a range over a slice).
func (c *Ctx) loopCoversSlice(b *ssa.BasicBlock) bool {
	l := enclosingRangeLoop(b)
	if l == nil {
		return false
	}
	call, ok := l.bound.(*ssa.Call)
	if !ok {
		return false
	}
	bi, ok := call.Call.Value.(*ssa.Builtin)
	return ok && bi.Name() == "len"
}

// checkSoleConstructor: composite literals of pkg.T occur only in ctor.
func (c *Ctx) checkSoleConstructor(pkgrel, typ, ctor string) {
	p := c.pkg(pkgrel)
	if p == nil {
		return
	}
	tn, _ := p.Types.Scope().Lookup(typ).(*types.TypeName)
	if tn == nil {
		c.missing(pkgrel + "." + typ)
		return
	}
	var offenders []string
	for _, pk := range c.Pkgs {
		for _, f := range pk.Syntax {
			for _, d := range f.Decls {
				fd, ok := d.(*ast.FuncDecl)
				name := "<package level>"
				if ok {
					name = fd.Name.Name
				}
				ast.Inspect(d, func(n ast.Node) bool {
					cl, ok := n.(*ast.CompositeLit)
					if !ok {
						return true
					}
					if t := pk.TypesInfo.TypeOf(cl); t != nil && namedOf(t) != nil && namedOf(t).Obj() == tn {
						// `var _ Mapper = &Map{}` interface assertions are harmless (blank identifier)
						if name == "<package level>" {
							return true
						}
						if !(pk == p && name == ctor) {
							offenders = append(offenders, short(pk.PkgPath)+"."+name)
						}
					}
					return true
				})
			}
		}
	}
	c.site(1)
	c.check(len(offenders) == 0, pkgrel+"."+typ+"|sole-constructor", c.pos(tn.Pos()), "", typ+" is only built by "+ctor+" (which validates)", fmt.Sprintf("%s.%s is also built in %v, bypassing %s and its validation", pkgrel, typ, offenders, ctor))
}

// ---------------------------------------------------------------------------
// REJECT: validators refuse the documented nonsense

func ruleReject(c *Ctx) {
	u := func(n int64) fval { return fval{k: constant.MakeInt64(n), t: types.Typ[types.Uint]} }
	cases := []struct {
		pkg, fn, label string
		recv           fval
	}{
		{"note", "Value.validate", "zero numerator", structFval(map[string]fval{"Rat.Num": u(0), "Rat.Denom": u(4)})},
		{"note", "Value.validate", "zero denominator", structFval(map[string]fval{"Rat.Num": u(1), "Rat.Denom": u(0)})},
		{"op", "Meter.validate", "zero numerator", structFval(map[string]fval{"Rat.Num": u(0), "Rat.Denom": u(4)})},
		{"op", "Meter.validate", "zero denominator", structFval(map[string]fval{"Rat.Num": u(4), "Rat.Denom": u(0)})},
		{"op", "BPM.validate", "tempo 0", u(0)},
		// dictionary entries without a name are refused whatever else they carry
		{"chord", "Attribute.validate", "unnamed attribute with a degree", structFval(map[string]fval{"Name": {k: constant.MakeString("")}, "Degree.Value": u(4), "Degree.Name": {k: constant.MakeInt64(1)}})},
		{"chord", "Chord.validate", "unnamed chord with attributes", structFval(map[string]fval{"Name": {k: constant.MakeString("")}, "Extends": {k: constant.MakeString("MajorTriad")}, "Meta.Display": {k: constant.MakeString("x")}, "Attributes": {cv: &ListV{T: types.NewSlice(types.Typ[types.String]), Elems: []Val{&CVal{V: constant.MakeString("MajorThird"), T: types.Typ[types.String]}}}}})},
	}
	oneAttr := fval{cv: &ListV{T: types.NewSlice(types.Typ[types.String]), Elems: []Val{&CVal{V: constant.MakeString("MajorThird"), T: types.Typ[types.String]}}}}
	cases = append(cases, struct {
		pkg, fn, label string
		recv           fval
	}{"chord", "Chord.validate", "chord with attributes but without a display", structFval(map[string]fval{"Name": {k: constant.MakeString("Abstract")}, "Extends": {k: constant.MakeString("")}, "Meta.Display": {k: constant.MakeString("")}, "Attributes": oneAttr})})
	cases = append(cases, struct {
		pkg, fn, label string
		recv           fval
	}{"chord", "Chord.validate", "chord that extends another but has no display", structFval(map[string]fval{"Name": {k: constant.MakeString("Abstract")}, "Extends": {k: constant.MakeString("MajorTriad")}, "Meta.Display": {k: constant.MakeString("")}, "Attributes": {isNil: true, t: types.NewSlice(types.Typ[types.String])}})})
	for _, cs := range cases {
		fn := c.fn(cs.pkg, cs.fn)
		key := cs.pkg + "." + cs.fn + "|" + cs.label
		if fn == nil {
			c.missing(cs.pkg + "." + cs.fn)
			continue
		}
		c.site(1)
		f := c.newFolder()
		var ret *ssa.Return
		f.hook = func(in ssa.Instruction, _ func(ssa.Value) fval) bool {
			if r, ok := in.(*ssa.Return); ok {
				ret = r
			}
			return false
		}
		_, err := f.foldMethod(fn, cs.recv, nil)
		switch {
		case ret == nil:
			c.undec(key, c.pos(fn.Pos()), fname(fn), fmt.Sprintf("validator does not fold for %s: %v", cs.label, err))
		case isNilConst(ret.Results[0]):
			c.bad(key, c.pos(ret.Pos()), fname(fn), fmt.Sprintf("validator accepts %s (its feasible path ends in `return nil`): the nonsense value reaches a MIDI file", cs.label))
		default:
			c.ok(key, c.pos(ret.Pos()), fname(fn), cs.label+" is refused")
		}
	}
	// ... and no more than that: values that mean something are accepted (a validator that grows a new condition must not
	// refuse what the notation can say). Chord symbols: every run of runes the lexer takes for a symbol is a display.
	strF := func(s string) fval { return fval{k: constant.MakeString(s), t: types.Typ[types.String]} }
	chordWith := func(name, display string) fval {
		l := &ListV{T: types.NewSlice(types.Typ[types.String]), Elems: []Val{&CVal{V: constant.MakeString("Major3"), T: types.Typ[types.String]}}}
		return fval{fields: map[string]fval{"Name": strF(name), "Meta": {fields: map[string]fval{"Display": strF(display)}}, "Attributes": {cv: l, t: l.T}, "Extends": strF("")}}
	}
	accepts := []struct {
		pkg, fn, label string
		recv           fval
	}{
		{"chord", "Chord.validate", "a display with a sharp (7#11)", chordWith("SharpEleven", "7#11")},
		{"chord", "Chord.validate", "a display with letters, digits and b (m7b5)", chordWith("HalfDim", "m7b5")},
		{"chord", "Chord.validate", "a display of signs (+)", chordWith("Plus", "+")},
		{"chord", "Chord.validate", "a display with parentheses and a comma-free alteration ((b9))", chordWith("FlatNine", "7(b9)")},
		{"chord", "Chord.validate", "a non-ASCII display (Δ7)", chordWith("Delta", "Δ7")},
		{"chord", "Chord.validate", "a long name with digits", chordWith("Added2nd", "add2")},
		{"op", "Meter.validate", "12/8", structFval(map[string]fval{"Rat.Num": u(12), "Rat.Denom": u(8)})},
		{"op", "Meter.validate", "1/1", structFval(map[string]fval{"Rat.Num": u(1), "Rat.Denom": u(1)})},
		{"op", "Meter.validate", "255/128", structFval(map[string]fval{"Rat.Num": u(255), "Rat.Denom": u(128)})},
		{"op", "BPM.validate", "tempo 1", u(1)},
		{"op", "BPM.validate", "tempo 30", u(30)},
		{"op", "BPM.validate", "tempo 600", u(600)},
		{"note", "Value.validate", "1/2048", structFval(map[string]fval{"Rat.Num": u(1), "Rat.Denom": u(2048)})},
		{"note", "Value.validate", "300/1", structFval(map[string]fval{"Rat.Num": u(300), "Rat.Denom": u(1)})},
	}
	for _, cs := range accepts {
		fn := c.fn(cs.pkg, cs.fn)
		if fn == nil {
			continue
		}
		c.site(1)
		key := cs.pkg + "." + cs.fn + "|accepts|" + cs.label
		r, err := c.newFolder().foldMethod(fn, cs.recv, nil)
		switch {
		case err != nil || !(r.isNil || r.nonNil):
			// nothing can be said (the validator does not fold for this value): no claim either way
			c.ok(key, c.pos(fn.Pos()), fname(fn), "not decided by folding for this value (no claim)")
		case r.nonNil:
			c.bad(key, c.pos(fn.Pos()), fname(fn), fmt.Sprintf("validator refuses %s: a value the notation can say and the tools can print is no longer usable", cs.label))
		default:
			c.ok(key, c.pos(fn.Pos()), fname(fn), cs.label+" is accepted")
		}
	}
	// what the validators judge is what was written: at every call of a validating constructor in the reading layers, an
	// argument is a parsed number or a default, and no comparison of a parsed number with anything decides which (a written
	// 0 must not be taken for "nothing written" and replaced by a default before the validator sees it)
	isParse := func(v ssa.Value) bool {
		ex, ok := v.(*ssa.Extract)
		if !ok {
			return false
		}
		call, ok := ex.Tuple.(*ssa.Call)
		if !ok {
			return false
		}
		switch calleeName(&call.Call) {
		case "util.ParseUint", "util.ParseRat", "strconv.ParseUint", "strconv.Atoi", "strconv.ParseInt":
			return ex.Index == 0
		}
		return false
	}
	for _, fn := range c.srcFuncs() {
		if fn.Pkg == nil {
			continue
		}
		if pk := short(fn.Pkg.Pkg.Path()); pk != "astconv" && pk != "cmd" && pk != "input" {
			continue
		}
		for _, ci := range callsIn(fn) {
			cn := calleeName(ci.Common())
			if cn != "note.NewValue" && cn != "op.NewMeter" && cn != "op.NewBPM" {
				continue
			}
			tr := c.plainTracer()
			for i, a := range ci.Common().Args {
				c.site(1)
				problem := ""
				for _, alt := range tr.alts(lval{a, fn, nil}, 0) {
					for _, g := range alt.conds {
						cmp, ok := tr.trace(g.cond).v.(*ssa.BinOp)
						if !ok {
							continue
						}
						for _, side := range []ssa.Value{cmp.X, cmp.Y} {
							if _, isK := side.(*ssa.Const); isK {
								continue
							}
							if b, isB := side.Type().Underlying().(*types.Basic); !isB || b.Info()&types.IsInteger == 0 {
								continue
							}
							if dataDependsOn(side, isParse) {
								problem = "which value is handed over depends on a comparison of the parsed number itself (`" + cmp.String() + "`): a written number can be replaced before the validator sees it"
							}
						}
					}
				}
				c.check(problem == "", fmt.Sprintf("%s -> %s|arg%d|as-written", c.ownerName(fn), cn, i), c.pos(ci.Pos()), fname(fn), "the validator is given the number as written (or a default when nothing was written)", fmt.Sprintf("%s: argument %d of %s: %s", fname(fn), i, cn, problem))
			}
		}
	}
	// Instance.Validate refuses an instance without durations: len(i.Values) == 0 -> error
	if fn := c.fn("op", "Instance.Validate"); fn != nil {
		c.site(1)
		good := false
		allInstrs(fn, func(in ssa.Instruction) {
			if b, ok := in.(*ssa.BinOp); ok && (b.Op == token.EQL || b.Op == token.LSS || b.Op == token.LEQ) {
				if call, ok := b.X.(*ssa.Call); ok {
					if bi, ok := call.Call.Value.(*ssa.Builtin); ok && bi.Name() == "len" {
						if name, _, ok := loadedField(call.Call.Args[0]); ok && name == "Values" {
							for _, ref := range *b.Referrers() {
								if iff, ok := ref.(*ssa.If); ok {
									// true branch returns non-nil
									for _, in2 := range iff.Block().Succs[0].Instrs {
										if r, ok := in2.(*ssa.Return); ok && !isNilConst(r.Results[0]) {
											good = true
										}
									}
								}
							}
						}
					}
				}
			}
		})
		c.check(good, "op.Instance.Validate|no durations", c.pos(fn.Pos()), fname(fn), "an instance without durations is refused", "Instance.Validate no longer refuses an instance with no values")
	} else {
		c.missing("op.Instance.Validate")
	}
	// every reader of a dynamic sign (flag, text metadata, YAML) refuses an unknown one
	unkDyn := c.enumConsts("op", "DynamicSign")["UnknownDynamicSign"]
	for _, fn := range c.srcFuncs() {
		for _, ci := range callsTo(fn, "op.NewDynamicSign") {
			call := ci.(*ssa.Call)
			c.site(1)
			good := false
			// the result itself, or loads of a local that holds it (x := NewDynamicSign(s); ... &x)
			var uses []ssa.Instruction
			uses = append(uses, *call.Referrers()...)
			for _, ref := range *call.Referrers() {
				if st, ok := ref.(*ssa.Store); ok && st.Val == ssa.Value(call) {
					if al, ok := st.Addr.(*ssa.Alloc); ok {
						for _, r2 := range *al.Referrers() {
							if ld, ok := r2.(*ssa.UnOp); ok && ld.Op == token.MUL && ld.Referrers() != nil {
								uses = append(uses, *ld.Referrers()...)
							}
						}
					}
				}
			}
			for _, ref := range uses {
				b, ok := ref.(*ssa.BinOp)
				if !ok || (b.Op != token.EQL && b.Op != token.NEQ) {
					continue
				}
				if k, ok := constInt(b.Y); !ok || k != unkDyn {
					continue
				}
				for _, r2 := range *b.Referrers() {
					if iff, ok := r2.(*ssa.If); ok {
						bad, okb := iff.Block().Succs[0], iff.Block().Succs[1]
						if b.Op == token.NEQ {
							bad, okb = okb, bad
						}
						if allPathsReturnError(bad, okb) {
							good = true
							// ... and not with the `not given` sentinel, which the callers take for "nothing was written"
							for _, blk := range fn.Blocks {
								if blk != bad && !bad.Dominates(blk) {
									continue
								}
								for _, in := range blk.Instrs {
									if r, ok := in.(*ssa.Return); ok && len(r.Results) > 0 {
										if ld, ok := r.Results[len(r.Results)-1].(*ssa.UnOp); ok && ld.Op == token.MUL {
											if g, ok := ld.X.(*ssa.Global); ok && g.Name() == "ErrOK" {
												good = false
											}
										}
									}
								}
							}
						}
					}
				}
			}
			if !good && fname(fn) == "op.DynamicSign.UnmarshalYAML" {
				if p, ok := c.dynamicDecoderRefusesUnknown(); ok && p == "" {
					good = true
				}
			}
			c.check(good, fname(fn)+" -> op.NewDynamicSign|unknown", c.pos(ci.Pos()), fname(fn), "an unknown dynamic sign is an error here", "the result of NewDynamicSign is not checked against UnknownDynamicSign here (or an unknown sign is answered with the `not given` sentinel and dropped): an unknown dynamic (e.g. --velocity fff, {vel=forte}) is played with velocity 0, which turns every note-on into a note-off, or is silently ignored")
		}
	}
	// DynamicSign: unknown string -> error in UnmarshalYAML
	if fn := c.fn("op", "DynamicSign.UnmarshalYAML"); fn != nil {
		c.site(1)
		good := false
		unk := c.enumConsts("op", "DynamicSign")["UnknownDynamicSign"]
		allInstrs(fn, func(in ssa.Instruction) {
			if b, ok := in.(*ssa.BinOp); ok && b.Op == token.EQL {
				if k, ok := constInt(b.Y); ok && k == unk {
					for _, ref := range *b.Referrers() {
						if iff, ok := ref.(*ssa.If); ok {
							for _, in2 := range iff.Block().Succs[0].Instrs {
								if r, ok := in2.(*ssa.Return); ok && !isNilConst(r.Results[0]) {
									good = true
								}
							}
						}
					}
				}
			}
		})
		if !good {
			// the test may be written another way (a range check, a predicate): decided by folding the decoder on texts
			if p, ok := c.dynamicDecoderRefusesUnknown(); ok && p == "" {
				good = true
			}
		}
		c.check(good, "op.DynamicSign.UnmarshalYAML|unknown", c.pos(fn.Pos()), fname(fn), "an unknown dynamic is refused", "an unknown dynamic sign is no longer an error when read from YAML")
	} else {
		c.missing("op.DynamicSign.UnmarshalYAML")
	}
}

// dynamicDecoderRefusesUnknown folds op.DynamicSign.UnmarshalYAML on scalar nodes: the signs the table knows are read
// (no error), every other text - fff, forte, FF, 100, the empty text - is refused. ok=false when it does not fold.
func (c *Ctx) dynamicDecoderRefusesUnknown() (string, bool) {
	fn := c.fn("op", "DynamicSign.UnmarshalYAML")
	if fn == nil || len(fn.Params) != 2 {
		return "", false
	}
	for _, probe := range []struct {
		text   string
		refuse bool
	}{{"mf", false}, {"pp", false}, {"ff", false}, {"fff", true}, {"forte", true}, {"FF", true}, {"100", true}, {"", true}, {" mf", true}} {
		fd := c.newFolder()
		fd.maxSteps, fd.maxDepth = 20000, 8
		heap := map[*ssa.Alloc]fval{}
		fd.heap = heap
		recv, node := new(ssa.Alloc), new(ssa.Alloc)
		heap[recv] = fval{k: constant.MakeInt64(0), t: types.Typ[types.Int]}
		heap[node] = fval{fields: map[string]fval{"Value": {k: constant.MakeString(probe.text), t: types.Typ[types.String]}, "Kind": {k: constant.MakeInt64(8)}, "Tag": {k: constant.MakeString("!!str"), t: types.Typ[types.String]}}}
		r, err := fd.foldCallEnv(fn, []fval{{addr: &faddr{base: recv}}, {addr: &faddr{base: node}}}, nil, heap)
		if err != nil || !(r.isNil || r.nonNil) {
			return "", false
		}
		if r.nonNil != probe.refuse {
			if probe.refuse {
				return fmt.Sprintf("the dynamic %q is read from YAML without an error", probe.text), true
			}
			return fmt.Sprintf("the dynamic %q is refused when read from YAML", probe.text), true
		}
	}
	return "", true
}

// ---------------------------------------------------------------------------
// MUST

type mustReview struct {
	why string
}

// reviewedPanicFuncs: every repo function that can reach a panic primitive directly, with the invariant that makes it safe.
// kind "wrapper": each call site is checked (initialiser / constants / reviewed site). kind "guarded": the guarding invariant is named.
var reviewedPanicFuncs = map[string]struct {
	kind string
	why  string
}{
	"logx.Panic":                       {"primitive", ""},
	"logx.PanicOnError":                {"primitive", ""},
	"op.MustNewScale":                  {"wrapper", ""},
	"op.MustParseKey":                  {"wrapper", ""},
	"op.MustNewMeter":                  {"wrapper", ""},
	"note.MustNewValue":                {"wrapper", ""},
	"note.MustNewDegree":               {"wrapper", ""},
	"util.MustInverseMap":              {"wrapper", ""},
	"util.MustNewRing":                 {"wrapper", ""},
	"chord.BasicChords":                {"guarded", "panics only if the embedded chord.yml does not parse/validate: TAB-CHORDS parses it and checks Chord.validate's conditions on every entry"},
	"chord.BasicAttributes":            {"guarded", "panics only if the embedded attribute.yml does not parse/validate: TAB-ATTRS parses it and compares it with the generator"},
	"note.Name.Semitone":               {"guarded", "panics on UnknownName: every producer of a Name (note.NewName call sites) is regex-guarded or checks for UnknownName (inventory below)"},
	"note.Name.AddDegree":              {"guarded", "panics on UnknownName; same producer inventory as Name.Semitone"},
	"note.Accidental.Semitone":         {"guarded", "panics on UnknownAccidental: note.NewAccidental is only called on a regex-guarded, non-empty [#b] match"},
	"note.CoerceDegreeName.String":     {"guarded", "panics on the Unknown coercion, i.e. for a Degree that failed validation; degrees are produced by ParseDegree / NewDegree / CoerceDegreeName.Degree which return ok=false instead, and the zero Degree of an absent YAML key is refused before anything is printed (LOOKUP degree-present)"},
	"midix.TrackNoSelectorImpl.Select": {"guarded", "panics on an OpType other than MetaTrack / FixedTrack; the marker interface has exactly these two implementations (OPMAP checks the allocation sites)"},
	"input/ast.VisitSwitch":            {"guarded", "panics on a node type outside the ten AST types; all arguments are fields of AST nodes built by the generated parser"},
}

// fmtOnlyPrinters: String methods that panic on a value that failed validation and that the reviewed tree only reaches
// through fmt verbs; reviewedDirectPrints lists direct calls that were read and found to act on validated values only.
var fmtOnlyPrinters = map[string]string{
	"note.CoerceDegreeName.String": "it panics on the coercion of an unknown interval quality, which is what the zero Degree of a chord without a `degree` key has, and modifiers (write conv) run before that chord is refused",
}

var reviewedDirectPrints = map[string]string{}

// reviewedConstIndex: constant positions taken from slices without a length test in front, with the reason they exist.
var reviewedConstIndex = map[string]string{
	"index|op.CircleMember.Head|slices.Collect(maps.Values(p0.scales))[0]":                                        "a circle member is built from at least one seed spelling (TAB-CIRCLE: no empty slot)",
	"index|cmd.writeCmdConv.RunE|cmd.newWriteCmdArgsFromInputInstances(p0,var<[]*input.Instance>)#0.instances[0]": "as long as the input list, whose length is tested on the line before",
}

// submatchGroups: v is (a re-slicing of) one match of a package-level regular expression with a constant pattern: the
// number of capture groups of the pattern and the offset the re-slicing adds.
func (c *Ctx) submatchGroups(v ssa.Value) (groups, offset int, ok bool) {
	for i := 0; i < 4; i++ {
		sl, isSlice := v.(*ssa.Slice)
		if !isSlice {
			break
		}
		if sl.Low != nil {
			k, isK := constInt(sl.Low)
			if !isK {
				return 0, 0, false
			}
			offset += int(k)
		}
		v = sl.X
	}
	var call *ssa.Call
	switch x := v.(type) {
	case *ssa.Call:
		call = x
	case *ssa.UnOp:
		if ia, isIA := x.X.(*ssa.IndexAddr); isIA && x.Op == token.MUL {
			call, _ = ia.X.(*ssa.Call)
		}
	}
	if call == nil {
		return 0, 0, false
	}
	// one match: the result of FindStringSubmatch itself, or an element of what FindAllStringSubmatch returns
	_, direct := v.(*ssa.Call)
	switch calleeName(&call.Call) {
	case "regexp.Regexp.FindStringSubmatch":
		if !direct {
			return 0, 0, false
		}
	case "regexp.Regexp.FindAllStringSubmatch":
		if direct {
			return 0, 0, false
		}
	default:
		return 0, 0, false
	}
	ld, isLoad := call.Call.Args[0].(*ssa.UnOp)
	if !isLoad || ld.Op != token.MUL {
		return 0, 0, false
	}
	g, isG := ld.X.(*ssa.Global)
	if !isG {
		return 0, 0, false
	}
	re := c.globalTable(g).re
	if re == nil {
		return 0, 0, false
	}
	return re.NumSubexp(), offset, true
}

// reviewedMustSites: non-constant call sites of wrappers outside initialisers, with the invariant another rule checks.
var reviewedMustSites = map[string]string{
	"op.circleMemberSeed.member -> op.MustNewScale": "seeds are string literals; TAB-CIRCLE proves every seed has a signature row and a scale",
	"op.circleMemberSeed.member -> op.MustParseKey": "seeds are string literals; TAB-CIRCLE checks each is a canonical key spelling",
	"op.circleSeed.circle -> util.MustNewRing":      "one member per seed; TAB-CIRCLE checks both seed lists have 12 entries",
}

// reviewedNameProducers: call sites of note.NewName (the only string -> Name conversion) with their guard.
var reviewedNameProducers = map[string]string{
	"op.ParseKey":    "argument is capture 1 of keyRegex = [A-G] (TAB-REGEX)",
	"note.ParseNote": "argument is capture 1 of noteRegex = [A-G] (TAB-REGEX)",
	"astconv.SyllableChordConverter.newScaleNote": "result compared with UnknownName, error returned",
	"astconv.ASTTypeClassifier.degreeType":        "result only compared with UnknownName",
}

func (c *Ctx) panicPrimitiveCall(ci ssa.CallInstruction) bool {
	n := calleeName(ci.Common())
	if n == "logx.Panic" || n == "logx.PanicOnError" || n == "builtin.panic" {
		return true
	}
	if callee := staticCallee(ci.Common()); callee != nil && c.isRepoFunc(callee) {
		return c.panicForwarder(callee)
	}
	return false
}

// panicForwarder: a function whose only way to panic is to hand its own error parameter straight to logx.PanicOnError /
// logx.Panic (Must(v, err) helpers): for its callers it is the primitive itself, under another name.
func (c *Ctx) panicForwarder(fn *ssa.Function) bool {
	if o := fn.Origin(); o != nil {
		fn = o
	}
	if c.forwarders == nil {
		c.forwarders = map[*ssa.Function]bool{}
	}
	if r, ok := c.forwarders[fn]; ok {
		return r
	}
	c.forwarders[fn] = false
	n, good := 0, true
	allInstrs(fn, func(in ssa.Instruction) {
		switch x := in.(type) {
		case *ssa.Panic:
			good = false
		case ssa.CallInstruction:
			cn := calleeName(x.Common())
			if cn == "builtin.panic" {
				good = false
			}
			if cn == "logx.Panic" || cn == "logx.PanicOnError" {
				n++
				args := x.Common().Args
				p, isParam := args[0].(*ssa.Parameter)
				if len(args) != 1 || !isParam || p.Parent() != fn || typeName(p.Type()) != "error" {
					good = false
				}
			}
		}
	})
	c.forwarders[fn] = good && n > 0
	return good && n > 0
}

// reviewedAsserts: unchecked type assertions that cannot fail, with the reason.
var reviewedAsserts = map[string]string{}

// runsWithoutInput: fn has no parameters and captures nothing, and folding it - its one and only execution - reaches a
// return with every call inside followed to its end: no panic on the way.
func (c *Ctx) runsWithoutInput(fn *ssa.Function) bool {
	if len(fn.Params) != 0 || len(fn.FreeVars) != 0 || fn.Parent() != nil {
		return false
	}
	if c.inputFree == nil {
		c.inputFree = map[*ssa.Function]bool{}
	}
	if r, ok := c.inputFree[fn]; ok {
		return r
	}
	r := c.runsWithoutInputUncached(fn)
	c.inputFree[fn] = r
	return r
}

func (c *Ctx) runsWithoutInputUncached(fn *ssa.Function) bool {
	fd := c.newFolder()
	fd.maxSteps = 400000
	fd.maxDepth = 12
	_, err := fd.foldCall(fn, nil)
	if os.Getenv("CRDCHECK_DEBUG") != "" {
		fmt.Fprintf(os.Stderr, "runsWithoutInput(%s): %v failed=%v incomplete=%v\n", fname(fn), err, fd.failedCalls, fd.incomplete)
	}
	return err == nil && len(fd.failedCalls) == 0 && len(fd.incomplete) == 0 && fd.panicked == ""
}

// reachedOnlyWithoutInput: fn takes parameters, but every one of its callers (up to three levels up) is a function
// without input that folds to its end with every call followed - fn included, on the values it is handed there.
func (c *Ctx) reachedOnlyWithoutInput(fn *ssa.Function, depth int) bool {
	if depth > 3 || fn.Parent() != nil {
		return false
	}
	node := c.callGraph().Nodes[fn]
	if node == nil || len(node.In) == 0 {
		return false
	}
	for _, e := range node.In {
		caller := e.Caller.Func
		if caller == nil || !c.isRepoFunc(caller) || caller == fn {
			return false
		}
		if caller.Synthetic != "" && caller.Name() != "init" {
			return false
		}
		if !(c.runsWithoutInput(caller) || c.reachedOnlyWithoutInput(caller, depth+1)) {
			return false
		}
	}
	return true
}

func ruleMust(c *Ctx) {
	c.checkDecodedNilElements()
	// the attribute generator at the ends of its range: `crd gen attr -d 0` and `-d 1` print an empty list
	if gf := c.fn("chord", "GenerateAttributes"); gf != nil {
		c.site(1)
		problem := c.generateAttributesAtBounds()
		c.check(problem == "", "chord.GenerateAttributes|bounds", c.pos(gf.Pos()), fname(gf), "GenerateAttributes(0) and (1) do not panic (folded)", fname(gf)+": "+problem)
	}
	var fns []*ssa.Function
	for _, fn := range c.repoFuncs() {
		if fn.Synthetic == "" {
			fns = append(fns, fn)
		}
	}
	// explicit panic(...) calls in source (go/ssa also synthesises Panic instructions for range-over-func bodies)
	explicit := map[token.Pos]bool{}
	for _, p := range c.Pkgs {
		for _, f := range p.Syntax {
			ast.Inspect(f, func(n ast.Node) bool {
				if call, ok := n.(*ast.CallExpr); ok {
					if id, ok := call.Fun.(*ast.Ident); ok && id.Name == "panic" {
						if _, isBuiltin := p.TypesInfo.Uses[id].(*types.Builtin); isBuiltin {
							explicit[call.Lparen] = true
						}
					}
				}
				return true
			})
		}
	}
	// unchecked type assertions `x.(T)` panic when the dynamic type differs: none may be applied to parsed input
	nAssert := 0
	for _, fn := range fns {
		if strings.HasSuffix(c.Fset.PositionFor(fn.Pos(), false).Filename, "_generated.go") {
			continue
		}
		allInstrs(fn, func(in ssa.Instruction) {
			ta, ok := in.(*ssa.TypeAssert)
			if !ok || ta.CommaOk || !ta.Pos().IsValid() {
				return
			}
			if types.Identical(ta.AssertedType, ta.X.Type()) {
				return // go/ssa's nil check of an interface method value, not an assertion written in the source
			}
			if it, ok := ta.AssertedType.Underlying().(*types.Interface); ok && types.Implements(ta.X.Type(), it) {
				return // widening to an interface the static type already implements (method value through an embedded interface)
			}
			nAssert++
			c.site(1)
			key := "assert|" + fname(fn) + "|" + typeName(ta.AssertedType)
			if why, ok := reviewedAsserts[key]; ok {
				c.ok(key, c.pos(ta.Pos()), fname(fn), "reviewed: "+why)
			} else {
				c.bad(key, c.pos(ta.Pos()), fname(fn), fmt.Sprintf("unchecked type assertion to %s: a value of another dynamic type (e.g. a rest where a chord is expected) makes crd panic with a stack trace instead of reporting an error; use the two-value form", typeName(ta.AssertedType)))
			}
		})
	}
	if nAssert == 0 {
		c.site(1)
		c.ok("assert|none", "", "", "no unchecked type assertion in hand-written code")
	}
	// a slice made to be filled while ranging over a string is indexed by byte offsets: its length must be len(string)
	nIdx := 0
	for _, fn := range fns {
		allInstrs(fn, func(in ssa.Instruction) {
			ia, ok := in.(*ssa.IndexAddr)
			if !ok {
				return
			}
			ex, ok := ia.Index.(*ssa.Extract)
			if !ok || ex.Index != 1 {
				return
			}
			nx, ok := ex.Tuple.(*ssa.Next)
			if !ok || !nx.IsString {
				return
			}
			mk, ok := ia.X.(*ssa.MakeSlice)
			if !ok {
				return
			}
			rng, _ := nx.Iter.(*ssa.Range)
			nIdx++
			c.site(1)
			good := false
			if call, ok := mk.Len.(*ssa.Call); ok && calleeName(&call.Call) == "builtin.len" && rng != nil && call.Call.Args[0] == rng.X {
				good = true
			}
			c.check(good, "index|"+fname(fn)+"|string-range", c.pos(ia.Pos()), fname(fn), "a slice indexed by the byte offsets of a string has the string's byte length", fname(fn)+": a slice is filled at the byte offsets of a ranged string but is not made with len(string) elements: a multi-byte character followed by another one indexes past the end and crd panics")
		})
	}
	_ = nIdx
	// an element taken at a constant position of a slice: a test of the slice's length that covers the position stands in
	// front of it, or the site is reviewed (the slice has that many elements by construction)
	for _, fn := range fns {
		if strings.HasSuffix(c.Fset.PositionFor(fn.Pos(), false).Filename, "_generated.go") {
			continue
		}
		allInstrs(fn, func(in ssa.Instruction) {
			ia, ok := in.(*ssa.IndexAddr)
			if !ok {
				return
			}
			if _, isSlice := ia.X.Type().Underlying().(*types.Slice); !isSlice {
				return
			}
			k, isK := constInt(ia.Index)
			if !isK {
				return
			}
			ac := &affCtx{c: c, fn: fn, alias: map[ssa.Value]string{}}
			xs := ac.describe(ia.X)
			key := fmt.Sprintf("index|%s|%s[%d]", c.ownerName(fn), xs, k)
			c.site(1)
			if why, ok := reviewedConstIndex[key]; ok {
				c.ok(key, c.pos(ia.Pos()), fname(fn), "reviewed: "+why)
				return
			}
			guarded := false
			// a capture of a regular expression: a submatch slice has one element per group plus one
			if n, off, ok := c.submatchGroups(ia.X); ok && int(k)+off <= n {
				c.ok(key, c.pos(ia.Pos()), fname(fn), fmt.Sprintf("capture %d of a pattern with %d groups", int(k)+off, n))
				return
			}
			lo, _ := c.sliceLenInterval(fn, ia.X, ia.Block(), 0)
			guarded = k < lo
			c.check(guarded, key, c.pos(ia.Pos()), fname(fn), fmt.Sprintf("len(%s) is tested before element %d is taken", xs, k), fmt.Sprintf("%s takes element %d of %s without a test of its length in front: when the slice is shorter (an empty piece, say) crd panics with index out of range instead of reporting an error", fname(fn), k, xs))
		})
	}
	// P0: functions that reach a panic primitive directly
	p0 := map[string]*ssa.Function{}
	for _, fn := range fns {
		direct := false
		allInstrs(fn, func(in ssa.Instruction) {
			if pn, ok := in.(*ssa.Panic); ok && explicit[pn.Pos()] {
				direct = true
			}
			if ci, ok := in.(ssa.CallInstruction); ok && c.panicPrimitiveCall(ci) {
				direct = true
			}
		})
		if direct {
			p0[fname(fn)] = fn
		}
	}
	for _, name := range sortedKeys(p0) {
		fn := p0[name]
		rv, ok := reviewedPanicFuncs[name]
		c.site(1)
		if !ok && c.panicForwarder(fn) {
			c.ok("inventory|"+name, c.pos(fn.Pos()), name, "hands its own error parameter to logx.PanicOnError and does nothing else that panics: a primitive under another name, its callers are judged like callers of PanicOnError")
			continue
		}
		if !ok {
			c.bad("inventory|"+name, c.pos(fn.Pos()), name, "function can panic (calls logx.Panic / PanicOnError / panic) and is not in the reviewed inventory: untrusted input reaching it crashes crd; review it and add it to reviewedPanicFuncs with the invariant that guards it")
			continue
		}
		if rv.kind == "guarded" {
			c.ok("inventory|"+name, c.pos(fn.Pos()), name, "reviewed: "+rv.why)
		} else {
			c.ok("inventory|"+name, c.pos(fn.Pos()), name, "reviewed "+rv.kind)
		}
	}
	for _, name := range sortedKeys(reviewedPanicFuncs) {
		if _, ok := p0[name]; !ok {
			// a reviewed function no longer panics: fine, but tell
			c.ok("inventory|gone|"+name, "", name, "reviewed entry no longer reaches a panic primitive")
		}
	}
	// printers that panic on an unvalidated value are only ever reached through fmt's verbs (fmt recovers a panicking
	// String method and prints a marker instead), never by a direct call on a value that may not have been validated yet
	for _, fn := range fns {
		for _, ci := range callsIn(fn) {
			callee := staticCallee(ci.Common())
			if callee == nil {
				continue
			}
			cn := fname(callee)
			why, listed := fmtOnlyPrinters[cn]
			if !listed {
				continue
			}
			if _, stillPanics := p0[cn]; !stillPanics {
				continue
			}
			c.site(1)
			key := "direct|" + c.ownerName(fn) + " -> " + cn
			if r, ok := reviewedDirectPrints[key]; ok {
				c.ok(key, c.pos(ci.Pos()), fname(fn), "reviewed: "+r)
			} else {
				c.bad(key, c.pos(ci.Pos()), fname(fn), fmt.Sprintf("%s calls %s directly: %s; a direct call panics (crd dies with a stack trace) where the fmt verb used so far printed a marker", fname(fn), cn, why))
			}
		}
	}
	// call sites of wrappers
	for _, fn := range fns {
		for _, ci := range callsIn(fn) {
			callee := staticCallee(ci.Common())
			if callee == nil {
				continue
			}
			cn := fname(callee)
			rv, ok := reviewedPanicFuncs[cn]
			if !ok || rv.kind != "wrapper" {
				if _, isP0 := p0[cn]; !isP0 || ok {
					continue
				}
			}
			caller := fname(fn)
			if _, known := reviewedMustSites[caller+" -> "+cn]; !known {
				if _, isW := reviewedPanicFuncs[caller]; !isW {
					caller = c.ownerName(fn)
				}
			}
			if _, callerIsWrapper := reviewedPanicFuncs[caller]; callerIsWrapper && reviewedPanicFuncs[caller].kind == "wrapper" {
				continue // wrappers calling wrappers (MustX -> X) are judged at their own call sites
			}
			c.site(1)
			key := caller + " -> " + cn
			switch {
			case isInitFunc(fn):
				c.ok(key, c.pos(ci.Pos()), caller, "package initialiser: fails at start-up on every run if wrong, never on user input")
			case c.allConstArgs(ci.Common()):
				c.ok(key, c.pos(ci.Pos()), caller, "constant arguments")
			default:
				if why, ok := reviewedMustSites[key]; ok {
					c.ok(key, c.pos(ci.Pos()), caller, "reviewed: "+why)
				} else if c.runsWithoutInput(fn) || c.reachedOnlyWithoutInput(fn, 0) {
					c.ok(key, c.pos(ci.Pos()), caller, "the caller takes no input and was folded to its end, every call followed: it does not panic")
				} else {
					c.bad(key, c.pos(ci.Pos()), caller, fmt.Sprintf("%s panics on invalid input and is called here with a value that is not a compile-time constant: a user-supplied value (flag, YAML field, text metadata) that is well-formed but unsupported crashes crd instead of producing an error", cn))
				}
			}
		}
	}
	// producers of note.Name
	for _, fn := range fns {
		for _, ci := range callsTo(fn, "note.NewName") {
			c.site(1)
			caller := fname(fn)
			if _, ok := reviewedNameProducers[caller]; !ok {
				caller = c.ownerName(fn)
			}
			key := "producer|note.NewName|" + caller
			if why, ok := reviewedNameProducers[caller]; ok {
				c.ok(key, c.pos(ci.Pos()), caller, "reviewed: "+why)
			} else {
				c.bad(key, c.pos(ci.Pos()), caller, "new string -> note.Name conversion: NewName returns UnknownName for anything but A-G, and Name.Semitone panics on it; guard the result and add the site to reviewedNameProducers")
			}
		}
		for _, ci := range callsTo(fn, "note.NewAccidental") {
			c.site(1)
			caller := fname(fn)
			if caller != "note.ParseNote" {
				caller = c.ownerName(fn)
			}
			c.check(caller == "note.ParseNote", "producer|note.NewAccidental|"+caller, c.pos(ci.Pos()), caller, "reviewed: argument is the non-empty capture [#b] of noteRegex", "new string -> note.Accidental conversion: NewAccidental returns UnknownAccidental for unknown text and Accidental.Semitone panics on it")
		}
	}
	// regexp.MustCompile only in initialisers with constant patterns
	for _, fn := range fns {
		for _, ci := range callsTo(fn, "regexp.MustCompile") {
			c.site(1)
			_, isConst := constString(ci.Common().Args[0])
			c.check(isInitFunc(fn) && isConst, "regexp.MustCompile|"+fname(fn), c.pos(ci.Pos()), fname(fn), "constant pattern in an initialiser", "regexp.MustCompile outside a package initialiser or with a non-constant pattern panics on a bad pattern at run time")
		}
	}
}

// allConstArgs: every argument is a constant, or a variadic slice of constants.
func (c *Ctx) allConstArgs(cc *ssa.CallCommon) bool {
	for _, a := range cc.Args {
		a = stripConv(a)
		if _, ok := a.(*ssa.Const); ok {
			continue
		}
		if _, ok := variadicConsts(a); ok {
			continue
		}
		return false
	}
	return true
}

// ---------------------------------------------------------------------------
// RECUR

var reviewedCycles = map[string]string{
	"input/ast.IterVisitor.VisitChord,input/ast.IterVisitor.VisitChordBase,input/ast.IterVisitor.VisitChordList,input/ast.IterVisitor.VisitChordMeta,input/ast.IterVisitor.VisitChordValues,input/ast.IterVisitor.VisitRest,input/ast.VisitSwitch,input/ast.MapVisitor.VisitChord,input/ast.MapVisitor.VisitChordBase,input/ast.MapVisitor.VisitChordList,input/ast.MapVisitor.VisitChordMeta,input/ast.MapVisitor.VisitChordValues,input/ast.MapVisitor.VisitRest": "visitors over the finite AST (depth <= 4: list, chord, base/values/meta, leaf)",
	"input/ast.LexScanner.ScanFunc": "re-enters itself after a `;` comment; each level consumes at least the `;` (and, by EOFPRED, the comment loop stops at end of input)",
	"chord.Map.GetChordAttributes":  "follows `extends`; acyclic because Map.validate rejects cyclic extends and NewMap is the only constructor (checked below)",
}

func ruleRecur(c *Ctx) {
	cg := c.callGraph()
	// adjacency restricted to repo functions
	adj := map[*ssa.Function][]*ssa.Function{}
	var nodes []*ssa.Function
	for fn, node := range cg.Nodes {
		if fn == nil || !c.isRepoFunc(fn) || len(fn.Blocks) == 0 {
			continue
		}
		nodes = append(nodes, fn)
		for _, e := range node.Out {
			if callee := e.Callee.Func; callee != nil && c.isRepoFunc(callee) {
				adj[fn] = append(adj[fn], callee)
			}
		}
	}
	sort.Slice(nodes, func(i, j int) bool { return fname(nodes[i]) < fname(nodes[j]) })
	sccs := tarjan(nodes, adj)
	for _, scc := range sccs {
		self := false
		if len(scc) == 1 {
			for _, t := range adj[scc[0]] {
				if t == scc[0] {
					self = true
				}
			}
			if !self {
				continue
			}
		}
		var names []string
		seen := map[string]bool{}
		for _, f := range scc {
			n := fname(unbound(f))
			if !seen[n] {
				seen[n] = true
				names = append(names, n)
			}
		}
		sort.Strings(names)
		c.site(1)
		key := "cycle|" + strings.Join(names, ",")
		why, ok := c.cycleReviewed(names)
		if !ok && c.cycleFollowsExtends(scc) {
			// wherever the walk along `extends` links lives and whatever it is called: finite because validate rejects cycles
			c.ok(key, c.pos(scc[0].Pos()), names[0], "every recursive call is made for the chord's `extends` parent; acyclic because Map.validate rejects cyclic extends and NewMap is the only constructor (checked below)")
			c.checkExtendsAcyclic()
			continue
		}
		if !ok && c.cycleIsLexerReentry(scc) {
			c.ok(key, c.pos(scc[0].Pos()), names[0], "the scanner re-enters itself through its stages after a comment: every call back to ScanFunc comes after the reader was told to discard (the `;` at least), and without ScanFunc the stages do not call each other in a circle; the comment loop stops at end of input (EOFPRED) and the corpus fold of LEXMODE runs comments in every position to their end")
			continue
		}
		if !ok {
			c.bad(key, c.pos(scc[0].Pos()), names[0], fmt.Sprintf("recursion cycle %v is not in the reviewed table: if its depth follows a user-supplied number or user-supplied references, a large value or a reference loop overflows the stack (fatal error, not an error message); give it a termination measure in reviewedCycles", names),
				c.cycleWitness(cg, scc)...)
			continue
		}
		c.ok(key, c.pos(scc[0].Pos()), names[0], "reviewed: "+why)
		if len(names) == 1 && names[0] == "chord.Map.GetChordAttributes" {
			c.checkExtendsAcyclic()
		}
	}
	// a channel is filled by a goroutine of its own: whoever makes a channel and then starts the code that sends on it must
	// start that code with `go`, or a producer with more to send than the buffer holds blocks for ever (the consumer runs later)
	c.checkChannelProducers(cg)
	// condition-only loops
	c.checkCondLoops()
	if len(c.extendsWalks) > 0 && !c.extendsChecked {
		c.checkExtendsAcyclic()
	}
}

func (c *Ctx) cycleReviewed(names []string) (string, bool) {
	joined := strings.Join(names, ",")
	if why, ok := reviewedCycles[joined]; ok {
		return why, true
	}
	// visitor cycles: any subset of the reviewed visitor set (VTA precision varies)
	for k, why := range reviewedCycles {
		set := map[string]bool{}
		for _, n := range strings.Split(k, ",") {
			set[n] = true
		}
		if len(set) < 3 {
			continue
		}
		all := true
		for _, n := range names {
			if !set[n] {
				all = false
			}
		}
		if all {
			return why, true
		}
	}
	return "", false
}

func (c *Ctx) cycleWitness(cg *callgraph.Graph, scc []*ssa.Function) []string {
	in := map[*ssa.Function]bool{}
	for _, f := range scc {
		in[f] = true
	}
	var out []string
	for _, f := range scc {
		for _, e := range cg.Nodes[f].Out {
			if in[e.Callee.Func] {
				out = append(out, fmt.Sprintf("%s calls %s at %s", fname(f), fname(e.Callee.Func), c.pos(e.Pos())))
			}
		}
	}
	sort.Strings(out)
	if len(out) > 6 {
		out = out[:6]
	}
	return out
}

func tarjan(nodes []*ssa.Function, adj map[*ssa.Function][]*ssa.Function) [][]*ssa.Function {
	index := 0
	idx := map[*ssa.Function]int{}
	low := map[*ssa.Function]int{}
	on := map[*ssa.Function]bool{}
	var stack []*ssa.Function
	var out [][]*ssa.Function
	var strong func(v *ssa.Function)
	strong = func(v *ssa.Function) {
		idx[v] = index
		low[v] = index
		index++
		stack = append(stack, v)
		on[v] = true
		for _, w := range adj[v] {
			if _, seen := idx[w]; !seen {
				strong(w)
				if low[w] < low[v] {
					low[v] = low[w]
				}
			} else if on[w] && idx[w] < low[v] {
				low[v] = idx[w]
			}
		}
		if low[v] == idx[v] {
			var comp []*ssa.Function
			for {
				w := stack[len(stack)-1]
				stack = stack[:len(stack)-1]
				on[w] = false
				comp = append(comp, w)
				if w == v {
					break
				}
			}
			out = append(out, comp)
		}
	}
	for _, n := range nodes {
		if _, seen := idx[n]; !seen {
			strong(n)
		}
	}
	return out
}

// innermostLoop: the smallest natural loop containing b.
func innermostLoop(b *ssa.BasicBlock) map[*ssa.BasicBlock]bool {
	var best map[*ssa.BasicBlock]bool
	for _, h := range b.Parent().Blocks {
		l := naturalLoop(h)
		if l != nil && l[b] && (best == nil || len(l) < len(best)) {
			best = l
		}
	}
	return best
}

// checkExtendsAcyclic: Map.validate (or a repo function it calls) walks `Extends` chains with a visited set and reports an error on a repeat.
func (c *Ctx) checkExtendsAcyclic() {
	if c.extendsChecked {
		return
	}
	c.extendsChecked = true
	v := c.fn("chord", "Map.validate")
	if v == nil {
		c.missing("chord.Map.validate")
		return
	}
	found := false
	var visit func(fn *ssa.Function, depth int)
	visit = func(fn *ssa.Function, depth int) {
		if depth > 2 || found {
			return
		}
		// a CFG loop containing: a load of .Extends, a Lookup and a MapUpdate on the same map, and the lookup result controlling an error append / return
		for _, b := range fn.Blocks {
			if !inLoop(b) {
				continue
			}
			for _, in := range b.Instrs {
				test, ok := setTestOf(in)
				if !ok || test.result == nil {
					continue
				}
				// same map updated inside the same (innermost) loop as the lookup: the visited set grows as the chain is walked
				updated := false
				readsExtends := false
				walkLoop := innermostLoop(in.Block())
				allInstrs(fn, func(in2 ssa.Instruction) {
					if add, ok := setAddOf(in2); ok && stripChangeType(add.set) == stripChangeType(test.set) && walkLoop != nil && walkLoop[in2.Block()] {
						updated = true
					}
					if inLoop(in2.Block()) {
						if val, ok := in2.(ssa.Value); ok {
							if n, _, ok := fieldName(val); ok && n == "Extends" {
								readsExtends = true
							}
						}
					}
				})
				// lookup result used in a condition
				controls := false
				for _, ref := range *test.result.Referrers() {
					if _, ok := ref.(*ssa.If); ok {
						controls = true
					}
				}
				if updated && readsExtends && controls {
					found = true
				}
			}
		}
		for _, ci := range callsIn(fn) {
			if callee := staticCallee(ci.Common()); callee != nil && c.isRepoFunc(callee) && callee.Pkg == fn.Pkg {
				visit(callee, depth+1)
			}
		}
	}
	visit(v, 0)
	c.site(1)
	c.check(found, "chord.Map.validate|cyclic-extends", c.pos(v.Pos()), fname(v), "validate walks extends chains with a visited set", "Map.validate checks that `extends` targets exist but not that the chain is acyclic: a dictionary with A extends B extends A passes validation and GetChordAttributes recurses until the stack overflows")
	c.checkSoleConstructor("chord", "Map", "NewMap")
}

var reviewedCondLoops = map[string]string{
	"note.Name.GetDegree#1": "searches the letter ring for x; x is not UnknownName (checked on entry) and the ring holds all seven letters, so i < 7",
	"note.Name.GetDegree#2": "continues from i for y; same argument, i < 14",
	"op.NewMeta#1":          "i += 2 per iteration over a finite argument list",
	"chord.Map.validate#1":  "walks one extends chain; every iteration adds a new name to the visited set or leaves the loop (miss, repeat), so at most len(m.chords) iterations",
}

func (c *Ctx) checkCondLoops() {
	for _, pk := range sortedKeys(c.Pkgs) {
		p := c.Pkgs[pk]
		for _, f := range p.Syntax {
			if strings.HasSuffix(c.Fset.PositionFor(f.Pos(), false).Filename, "_generated.go") {
				// generated code (goyacc, mkvisitor, stringer) is part of the trusted base
				continue
			}
			for _, d := range f.Decls {
				fd, ok := d.(*ast.FuncDecl)
				if !ok || fd.Body == nil {
					continue
				}
				name := short(p.PkgPath) + "."
				if fd.Recv != nil && len(fd.Recv.List) == 1 {
					t := fd.Recv.List[0].Type
					if s, ok := t.(*ast.StarExpr); ok {
						t = s.X
					}
					if ix, ok := t.(*ast.IndexExpr); ok {
						t = ix.X
					}
					if id, ok := t.(*ast.Ident); ok {
						name += id.Name + "."
					}
				}
				name += fd.Name.Name
				n := 0
				ast.Inspect(fd.Body, func(nd ast.Node) bool {
					fs, ok := nd.(*ast.ForStmt)
					if !ok {
						return true
					}
					if fs.Init != nil && fs.Post != nil && fs.Cond != nil {
						return true // counted loop
					}
					n++
					key := fmt.Sprintf("%s#%d", name, n)
					c.site(1)
					// a recognised termination measure needs no table entry (and survives moving the loop elsewhere)
					if sfn := c.fn(short(p.PkgPath), strings.TrimPrefix(name, short(p.PkgPath)+".")); sfn != nil {
						if why, ok := c.loopMeasure(ssaLoopOf(sfn, fs)); ok {
							c.ok("loop|"+key, c.pos(fs.Pos()), name, "measure: "+why)
							return true
						}
					}
					if why, ok := reviewedCondLoops[key]; ok {
						c.ok("loop|"+key, c.pos(fs.Pos()), name, "reviewed: "+why)
					} else {
						c.bad("loop|"+key, c.pos(fs.Pos()), name, "condition-only loop not in the reviewed table: nothing shows it terminates on every input; give it a termination measure in reviewedCondLoops")
					}
					return true
				})
			}
		}
	}
}

// ---------------------------------------------------------------------------
// ERRDROP

var errDropLib = map[string]bool{
	"gopkg.in/yaml.v3.Unmarshal": true, "gopkg.in/yaml.v3.Marshal": true, "io.ReadAll": true, "os.Open": true, "os.Create": true,
	"gopkg.in/yaml.v3.Node.Decode": true,
}

var reviewedErrDrops = map[string]string{
	"op.AllScales -> op.NewScale":                            "keys are the keys of keySignatures itself, NewScale cannot miss",
	"desc.Chord.Describe -> chord.Mapper.GetChordAttributes": "",
}

// checkScannerErr: a bufio.Scanner loop ends silently on an over-long line or a read error; whoever scans must ask Err().
func (c *Ctx) checkScannerErr() {
	for _, fn := range c.srcFuncs() {
		scans := callsTo(fn, "bufio.Scanner.Scan")
		if len(scans) == 0 {
			continue
		}
		c.site(1)
		root := fn
		for root.Parent() != nil {
			root = root.Parent()
		}
		asked := false
		for _, f := range withClosures(root) {
			if len(callsTo(f, "bufio.Scanner.Err")) > 0 {
				asked = true
			}
		}
		c.check(asked, fname(fn)+" -> bufio.Scanner.Err", c.pos(scans[0].Pos()), fname(fn), "the scanner's error is asked for after the loop", fname(fn)+" reads with a bufio.Scanner but never calls Err(): a line longer than the scanner's buffer (64 KiB) or a read error ends the loop silently and the rest of the input is dropped with exit status 0")
	}
}

func ruleErrDrop(c *Ctx) {
	c.checkScannerErr()
	for _, fn := range c.srcFuncs() {
		for _, ci := range callsIn(fn) {
			call, ok := ci.(*ssa.Call)
			if !ok {
				if _, isDefer := ci.(*ssa.Defer); isDefer {
					continue
				}
				continue
			}
			cc := call.Common()
			name := calleeName(cc)
			callee := staticCallee(cc)
			inScope := false
			if callee != nil && c.isRepoFunc(callee) {
				inScope = true
			} else if cc.IsInvoke() && c.isRepoPkgPath(pkgPathOfType(cc.Value.Type())) {
				inScope = true
			} else if errDropLib[name] {
				inScope = true
			} else if callee == nil && !cc.IsInvoke() {
				// call through a function value: in scope when the signature's declaring context is the repo (closures)
				if f := funcOfValue(cc.Value); f != nil && c.isRepoFunc(f) {
					inScope = true
				}
			}
			if !inScope {
				continue
			}
			sig := cc.Signature()
			res := sig.Results()
			errIdx := -1
			for i := 0; i < res.Len(); i++ {
				if isErrorType(res.At(i).Type()) {
					errIdx = i
				}
			}
			if errIdx < 0 {
				continue
			}
			c.site(1)
			key := fname(fn) + " -> " + name
			used := false
			if res.Len() == 1 {
				used = len(nonDebugRefs(call)) > 0
			} else {
				for _, ref := range *call.Referrers() {
					if ex, ok := ref.(*ssa.Extract); ok && ex.Index == errIdx && len(nonDebugRefs(ex)) > 0 {
						used = true
					}
				}
			}
			switch {
			case used:
				c.ok(key, c.pos(call.Pos()), fname(fn), "error result is used")
			case isInitFunc(fn) && c.allConstArgs(cc):
				c.ok(key, c.pos(call.Pos()), fname(fn), "constant arguments in a package initialiser (value checked by TAB-DEFAULTS)")
			default:
				if why, ok := reviewedErrDrops[key]; ok && why != "" {
					c.ok(key, c.pos(call.Pos()), fname(fn), "reviewed: "+why)
				} else {
					c.bad(key, c.pos(call.Pos()), fname(fn), fmt.Sprintf("the error returned by %s is discarded: a failure there is silently turned into a (wrong) result instead of being signalled", name))
				}
			}
		}
	}
}

func nonDebugRefs(v ssa.Value) []ssa.Instruction {
	var out []ssa.Instruction
	if v.Referrers() == nil {
		return nil
	}
	for _, r := range *v.Referrers() {
		if _, ok := r.(*ssa.DebugRef); !ok {
			out = append(out, r)
		}
	}
	return out
}

func pkgPathOfType(t types.Type) string {
	if n := namedOf(t); n != nil && n.Obj().Pkg() != nil {
		return n.Obj().Pkg().Path()
	}
	return ""
}

// ---------------------------------------------------------------------------
// NARROW

func intBits(t types.Type) (bits int, signed bool, ok bool) {
	b, isB := t.Underlying().(*types.Basic)
	if !isB || b.Info()&types.IsInteger == 0 {
		return 0, false, false
	}
	switch b.Kind() {
	case types.Int8:
		return 8, true, true
	case types.Uint8:
		return 8, false, true
	case types.Int16:
		return 16, true, true
	case types.Uint16:
		return 16, false, true
	case types.Int32:
		return 32, true, true
	case types.Uint32:
		return 32, false, true
	case types.Int64, types.Int:
		return 64, true, true
	case types.Uint64, types.Uint, types.Uintptr:
		return 64, false, true
	}
	return 0, false, false
}

func ruleNarrow(c *Ctx) {
	vts := c.validatedTypes()
	for _, fn := range c.srcFuncs() {
		allInstrs(fn, func(in ssa.Instruction) {
			cv, ok := in.(*ssa.Convert)
			if !ok {
				return
			}
			fb, fs, ok1 := intBits(cv.X.Type())
			tb, ts, ok2 := intBits(cv.Type())
			if !ok1 || !ok2 {
				return
			}
			narrowing := tb < fb || (tb == fb && !fs && ts)
			if !narrowing {
				return
			}
			// operand: a field (path) of a value of a validated type, or a value of a validated basic type
			owner, path := c.validatedOrigin(cv.X, vts)
			if owner == nil {
				return
			}
			c.site(1)
			tn := typeName(owner)
			key := fmt.Sprintf("%s|%s(%s%s)", fname(fn), cv.Type().String(), tn, path)
			// bound: validate refuses the smallest value that does not fit
			limit := int64(1) << uint(tb)
			if ts {
				limit = int64(1) << uint(tb-1)
			}
			if tb >= 63 {
				// uint -> int: only values >= 2^63 wrap; recorded, not armed (no realistic tempo)
				c.ok(key, c.pos(cv.Pos()), fname(fn), fmt.Sprintf("%d-bit unsigned to %d-bit signed: wraps only above 2^63 (recorded)", fb, tb))
				return
			}
			vfn := c.Prog.FuncValue(vts[owner])
			var recv fval
			if path == "" {
				recv = fval{k: constant.MakeInt64(limit), t: owner}
			} else {
				recv = structFval(map[string]fval{strings.TrimPrefix(path, "."): {k: constant.MakeInt64(limit), t: types.Typ[types.Uint]}})
				// other fields: a harmless positive value so that only this bound decides
				for _, other := range c.siblingFields(owner, strings.TrimPrefix(path, ".")) {
					setPath(recv, other, fval{k: constant.MakeInt64(4), t: types.Typ[types.Uint]})
				}
			}
			f := c.newFolder()
			var ret *ssa.Return
			f.hook = func(in ssa.Instruction, _ func(ssa.Value) fval) bool {
				if r, ok := in.(*ssa.Return); ok {
					ret = r
				}
				return false
			}
			_, err := f.foldMethod(vfn, recv, nil)
			switch {
			case ret == nil:
				c.undec(key, c.pos(cv.Pos()), fname(fn), fmt.Sprintf("%s does not fold for %s=%d: %v", vts[owner].Name(), path, limit, err))
			case isNilConst(ret.Results[0]):
				c.bad(key, c.pos(cv.Pos()), fname(fn), fmt.Sprintf("%s%s is converted to %s here but %s.%s accepts %d: the value wraps silently (e.g. meter 256/4 is written as 0/4)", tn, path, cv.Type(), tn, vts[owner].Name(), limit))
			default:
				c.ok(key, c.pos(cv.Pos()), fname(fn), fmt.Sprintf("%s refuses %s=%d", vts[owner].Name(), path, limit))
			}
		})
	}
	// every other lossy integer conversion: by (source type -> target type) against the reviewed pairs
	c.checkNarrowPairs()
}

func setPath(root fval, path string, v fval) {
	parts := strings.Split(path, ".")
	cur := root
	for i, p := range parts {
		if i == len(parts)-1 {
			if _, exists := cur.fields[p]; !exists {
				cur.fields[p] = v
			}
			return
		}
		nx, ok := cur.fields[p]
		if !ok || nx.fields == nil {
			nx = fval{fields: map[string]fval{}}
			cur.fields[p] = nx
		}
		cur = nx
	}
}

// siblingFields lists the integer leaf field paths of T other than path.
func (c *Ctx) siblingFields(T *types.Named, path string) []string {
	var out []string
	var walk func(t types.Type, prefix string)
	walk = func(t types.Type, prefix string) {
		st, ok := t.Underlying().(*types.Struct)
		if !ok {
			return
		}
		for i := 0; i < st.NumFields(); i++ {
			f := st.Field(i)
			p := prefix + f.Name()
			if _, _, isInt := intBits(f.Type()); isInt {
				if p != path {
					out = append(out, p)
				}
			} else {
				walk(f.Type(), p+".")
			}
		}
	}
	walk(T, "")
	return out
}

// validatedOrigin: v is (a field path of) a value whose type has a validate method.
func (c *Ctx) validatedOrigin(v ssa.Value, vts map[*types.Named]*types.Func) (*types.Named, string) {
	path := ""
	for steps := 0; steps < 10; steps++ {
		if n, ok := v.Type().(*types.Named); ok {
			if _, has := vts[n]; has {
				return n, path
			}
		}
		if p, ok := v.Type().Underlying().(*types.Pointer); ok {
			if n, ok := p.Elem().(*types.Named); ok {
				if _, has := vts[n]; has {
					return n, path
				}
			}
		}
		switch x := v.(type) {
		case *ssa.UnOp:
			if x.Op != token.MUL {
				return nil, ""
			}
			v = x.X
		case *ssa.FieldAddr:
			n, base, _ := fieldName(x)
			path = "." + n + path
			v = base
		case *ssa.Field:
			n, base, _ := fieldName(x)
			path = "." + n + path
			v = base
		default:
			return nil, ""
		}
	}
	return nil, ""
}

// ---------------------------------------------------------------------------
// LOOKUP

func ruleLookup(c *Ctx) {
	// newWriteCmdArgsFromInputInstances: GetChord miss -> error before NewChord
	fn := c.fn("cmd", "newWriteCmdArgsFromInputInstances")
	if fn == nil {
		c.missing("cmd.newWriteCmdArgsFromInputInstances")
	} else {
		c.site(1)
		key := "cmd.newWriteCmdArgsFromInputInstances|GetChord"
		// the lookup and the construction may sit in an extracted helper: look at the whole region
		region := c.regionCalls(fn, nil)
		find := func(name string) []rcall {
			return findRegion(region, func(ci ssa.CallInstruction) bool { return calleeName(ci.Common()) == name })
		}
		gets, news := find("chord.Mapper.GetChord"), find("op.NewChord")
		// missBefore: a miss of the located call is an error that reaches the caller, and the construction only happens on a hit
		missBefore := func(rc rcall, nw rcall) bool {
			call, ok := rc.call.(*ssa.Call)
			if !ok {
				return false
			}
			for _, s := range rc.chain {
				if sc, ok := s.(*ssa.Call); !ok || !c.errorReturned(sc) {
					return false
				}
			}
			if sameChain(rc.chain, nw.chain) {
				return c.missReturnsError(call, 1, nw.call)
			}
			return c.missReturnsError(call, 1, nil) && regionDominates(rc.li(), nw.li())
		}
		switch {
		case len(gets) == 0 || len(news) == 0:
			c.undec(key, c.pos(fn.Pos()), fname(fn), "chord lookup or op.NewChord not found")
		default:
			good := missBefore(gets[len(gets)-1], news[0])
			c.check(good, key, c.pos(gets[0].call.Pos()), fname(fn), "unknown chord symbol is an error before the chord is built", "a chord symbol that the dictionary does not define no longer fails before op.NewChord: the unknown symbol is played as something else")
		}
		// a chord decoded without a `degree` key holds the zero Degree, whose printer panics: it must be refused before the chord is built
		c.site(1)
		key = "cmd.newWriteCmdArgsFromInputInstances|degree-present"
		good := false
		for _, rc := range find("note.Degree.Semitone") {
			n, _, ok := loadedField(rc.call.Common().Args[0])
			if ok && n == "Degree" && len(news) > 0 && missBefore(rc, news[0]) {
				good = true
			}
		}
		// ... and nothing else is refused here: an error is returned only where a callee reported one or a lookup missed (a
		// check added on the reading side only - of metadata keys, of ranges - refuses documents `text conv` prints)
		{
			c.site(1)
			refusal := ""
			chainsOf := c.regionFuncChains(fn, nil)
			for _, f := range c.regionFuncChainsList(fn) {
				if pkgOfFunc(f) != pkgOfFunc(fn) {
					continue
				}
				// the function itself and helpers split off from it; the flag getters and the other named steps of the
				// reviewed tree have refusals of their own, judged by their own rules - and so have the helpers those call
				if _, reviewed := anchorSigs["cmd|"+f.Name()]; reviewed && f != fn {
					continue
				}
				viaReviewed := false
				for _, site := range chainsOf[f] {
					if p := site.Parent(); p != nil && p != fn {
						if _, reviewed := anchorSigs["cmd|"+p.Name()]; reviewed {
							viaReviewed = true
						}
					}
				}
				if viaReviewed {
					continue
				}
				for _, r := range returnsOf(f) {
					if len(r.Results) < 1 {
						continue
					}
					last := r.Results[len(r.Results)-1]
					if !isErrorType(last.Type()) || isNilConst(last) {
						continue
					}
					// an error handed on from a callee as it is (tested against nil on the way)
					handedOn := false
					switch e := last.(type) {
					case *ssa.Extract:
						handedOn = true
					case *ssa.Call:
						_ = e
					case *ssa.Phi:
						handedOn = true
					}
					if handedOn {
						continue
					}
					failed := false
					for _, pc := range pathConds(r.Block()) {
						switch x := pc.cond.(type) {
						case *ssa.Extract:
							if _, isCall := x.Tuple.(*ssa.Call); isCall && !pc.side {
								failed = true // comma-ok of a lookup, false side
							}
							if _, isLk := x.Tuple.(*ssa.Lookup); isLk && !pc.side {
								failed = true
							}
						case *ssa.UnOp:
							if ex, ok := x.X.(*ssa.Extract); ok && x.Op == token.NOT && pc.side {
								_ = ex
								failed = true
							}
						case *ssa.BinOp:
							if (isNilConst(x.X) || isNilConst(x.Y)) && (isErrorType(x.X.Type()) || isErrorType(x.Y.Type())) && (x.Op == token.NEQ) == pc.side {
								failed = true // a callee's error, on the side where there is one
							}
						}
					}
					if !failed {
						refusal = "an error is made up at " + c.pos(r.Pos()) + " in " + fname(f) + " without a failed lookup or a callee's error in front of it"
					}
				}
			}
			c.check(refusal == "", "cmd.newWriteCmdArgsFromInputInstances|refusals", c.pos(fn.Pos()), fname(fn), "an instance is refused only when a callee refuses it or a lookup misses", fname(fn)+": "+refusal+": documents that `text conv` / `write conv` print are refused by `write`")
		}
		c.check(good, key, c.pos(fn.Pos()), fname(fn), "a chord without a valid degree is an error before the chord is built", "an instance whose chord has no `degree` key (yaml leaves the zero Degree, UnmarshalYAML is not called for an absent key) is not refused: `crd write parse` / `write conv` print `degree: %!s(PANIC=String method: InvalidDegree)0` and exit 0")
	}
	ap := c.fn("play", "Key.Apply")
	if ap == nil {
		c.missing("play.Key.Apply")
		return
	}
	c.site(1)
	var get *ssa.Call
	for _, ci := range callsIn(ap) {
		if n := calleeName(ci.Common()); n == "chord.Mapper.GetChordAttributes" {
			get, _ = ci.(*ssa.Call)
		}
	}
	if get == nil {
		c.undec("play.Key.Apply|GetChordAttributes", c.pos(ap.Pos()), fname(ap), "attribute lookup not found")
		return
	}
	c.check(c.missReturnsError(get, 1, nil), "play.Key.Apply|GetChordAttributes", c.pos(get.Pos()), fname(ap), "lookup miss is an error", "a miss of GetChordAttributes is no longer an error in Key.Apply")
}

// missReturnsError: the bool result #okIdx of call is tested; on the false side the function returns a non-nil error; `before`, if set, is dominated by the true side.
func (c *Ctx) missReturnsError(call *ssa.Call, okIdx int, before ssa.Instruction) bool {
	for _, ref := range *call.Referrers() {
		ex, ok := ref.(*ssa.Extract)
		if !ok || ex.Index != okIdx {
			continue
		}
		for _, r2 := range *ex.Referrers() {
			iff, ok := r2.(*ssa.If)
			if !ok {
				continue
			}
			okSucc, missSucc := iff.Block().Succs[0], iff.Block().Succs[1]
			// miss side returns error
			retErr := false
			for _, in := range missSucc.Instrs {
				if r, ok := in.(*ssa.Return); ok {
					last := retVal(r, len(r.Results)-1)
					if !isNilConst(last) {
						retErr = true
					}
				}
			}
			if !retErr {
				return false
			}
			if before != nil && !(okSucc == before.Block() || okSucc.Dominates(before.Block())) {
				return false
			}
			return true
		}
		// `if !ok` form
		for _, r2 := range *ex.Referrers() {
			if u, ok := r2.(*ssa.UnOp); ok && u.Op == token.NOT {
				for _, r3 := range *u.Referrers() {
					if iff, ok := r3.(*ssa.If); ok {
						missSucc, okSucc := iff.Block().Succs[0], iff.Block().Succs[1]
						retErr := false
						for _, in := range missSucc.Instrs {
							if r, ok := in.(*ssa.Return); ok && !isNilConst(retVal(r, len(r.Results)-1)) {
								retErr = true
							}
						}
						if !retErr {
							return false
						}
						if before != nil && !(okSucc == before.Block() || okSucc.Dominates(before.Block())) {
							return false
						}
						return true
					}
				}
			}
		}
	}
	return false
}

// dataReaches: the value flows (through stores into locals / variadic lists, wrapping calls and phis) into an instruction satisfying pred.
func dataReaches(v ssa.Value, pred func(ssa.Instruction) bool) bool {
	seen := map[ssa.Value]bool{}
	var walk func(x ssa.Value, d int) bool
	walk = func(x ssa.Value, d int) bool {
		if x == nil || seen[x] || d > 12 {
			return false
		}
		seen[x] = true
		refs := x.Referrers()
		if refs == nil {
			return false
		}
		for _, r := range *refs {
			if pred(r) {
				return true
			}
			switch y := r.(type) {
			case *ssa.Store:
				if y.Val == x {
					// into a variadic list / local: follow the container
					switch a := y.Addr.(type) {
					case *ssa.IndexAddr:
						if walk(a.X, d+1) {
							return true
						}
					case *ssa.Alloc:
						if walk(a, d+1) {
							return true
						}
					}
				}
			case *ssa.Slice:
				if walk(y, d+1) {
					return true
				}
			case *ssa.MakeInterface:
				if walk(y, d+1) {
					return true
				}
			case *ssa.Phi:
				// a loop-carried variable that later iterations overwrite does not preserve the value
				continue
			case *ssa.UnOp:
				if walk(y, d+1) {
					return true
				}
			}
		}
		return false
	}
	return walk(v, 0)
}

// accessorOfField: the function does nothing but return (value, ok) of a comma-ok lookup in a map field of its receiver: the field's name.
func accessorOfField(fn *ssa.Function) string {
	rets := returnsOf(fn)
	if len(rets) != 1 || len(rets[0].Results) != 2 || len(callsIn(fn)) != 0 {
		return ""
	}
	e0, ok0 := retVal(rets[0], 0).(*ssa.Extract)
	e1, ok1 := retVal(rets[0], 1).(*ssa.Extract)
	if !ok0 || !ok1 || e0.Tuple != e1.Tuple || e0.Index != 0 || e1.Index != 1 {
		return ""
	}
	lk, ok := e0.Tuple.(*ssa.Lookup)
	if !ok || !lk.CommaOk {
		return ""
	}
	n, _, isField := loadedField(lk.X)
	if !isField {
		return ""
	}
	return n
}

// cycleIsLexerReentry: the cycle is LexScanner.ScanFunc and stage methods of the scanner it was split into: all members
// are methods of input/ast.LexScanner, every call back to ScanFunc is dominated by a consuming call on the reader
// (DiscardWhile / Discard / Next) in the calling function, and the members other than ScanFunc do not form a cycle among
// themselves.
func (c *Ctx) cycleIsLexerReentry(scc []*ssa.Function) bool {
	entry := c.fn("input/ast", "LexScanner.ScanFunc")
	if entry == nil {
		return false
	}
	in := map[*ssa.Function]bool{}
	hasEntry := false
	for _, f := range scc {
		u := unbound(f)
		in[u] = true
		if u == entry {
			hasEntry = true
		}
		if u.Signature.Recv() == nil || !strings.HasSuffix(typeName(u.Signature.Recv().Type()), "input/ast.LexScanner") {
			return false
		}
	}
	if !hasEntry {
		return false
	}
	adj := map[*ssa.Function][]*ssa.Function{}
	for f := range in {
		for _, ci := range callsIn(f) {
			callee := staticCallee(ci.Common())
			if callee == nil || !in[unbound(callee)] {
				continue
			}
			callee = unbound(callee)
			if callee != entry {
				if f != entry {
					adj[f] = append(adj[f], callee)
				}
				continue
			}
			consumed := false
			for _, cj := range callsIn(f) {
				cc := cj.Common()
				if cc.IsInvoke() && (cc.Method.Name() == "DiscardWhile" || cc.Method.Name() == "Discard" || cc.Method.Name() == "Next") && dominatesInstr(cj, ci) {
					consumed = true
				}
			}
			if !consumed {
				return false
			}
		}
	}
	// the stages alone: no cycle
	state := map[*ssa.Function]int{}
	var visit func(f *ssa.Function) bool
	visit = func(f *ssa.Function) bool {
		switch state[f] {
		case 1:
			return false
		case 2:
			return true
		}
		state[f] = 1
		for _, g := range adj[f] {
			if !visit(g) {
				return false
			}
		}
		state[f] = 2
		return true
	}
	for f := range in {
		if f != entry && !visit(f) {
			return false
		}
	}
	return true
}

// cycleFollowsExtends: every call between the functions of the cycle passes c.Extends or the chord stored under that name.
func (c *Ctx) cycleFollowsExtends(scc []*ssa.Function) bool {
	in := map[*ssa.Function]bool{}
	for _, f := range scc {
		in[unbound(f)] = true
	}
	n := 0
	for _, f := range scc {
		for _, ci := range callsIn(f) {
			callee := staticCallee(ci.Common())
			if callee == nil || !in[unbound(callee)] {
				continue
			}
			n++
			okArg := false
			ac := &affCtx{c: c, fn: f, alias: map[ssa.Value]string{}}
			for _, a := range ci.Common().Args {
				d := ac.describe(a)
				if strings.HasSuffix(d, ".Extends") || (strings.Contains(d, ".chords[") && strings.Contains(d, ".Extends]")) {
					okArg = true
				}
			}
			if !okArg {
				return false
			}
		}
	}
	return n > 0
}

// ownerName: the name an inventory files a call site under: the function itself, or - for an unexported helper with
// exactly one static caller in its package (code extracted from that caller) - the caller, transitively.
func (c *Ctx) ownerName(fn *ssa.Function) string {
	if c.callersOf == nil {
		c.callersOf = map[*ssa.Function]map[*ssa.Function]bool{}
		for _, f := range c.srcFuncs() {
			root := f
			for root.Parent() != nil {
				root = root.Parent()
			}
			for _, ci := range callsIn(f) {
				callee := staticCallee(ci.Common())
				if callee == nil {
					continue
				}
				callee = unbound(callee)
				if callee == root {
					continue
				}
				if c.callersOf[callee] == nil {
					c.callersOf[callee] = map[*ssa.Function]bool{}
				}
				c.callersOf[callee][root] = true
			}
		}
	}
	cur := fn
	for cur.Parent() != nil {
		cur = cur.Parent()
	}
	for i := 0; i < 4; i++ {
		if _, aliased := funcAlias[cur]; aliased {
			break
		}
		if cur.Object() == nil || cur.Object().Exported() || len(c.callersOf[cur]) != 1 {
			break
		}
		var only *ssa.Function
		for k := range c.callersOf[cur] {
			only = k
		}
		if only.Pkg != cur.Pkg {
			break
		}
		cur = only
	}
	if cur == fn || fn.Parent() == nil {
		return fname(cur)
	}
	// a closure keeps its own name unless its root was re-filed
	root := fn
	for root.Parent() != nil {
		root = root.Parent()
	}
	if cur == root {
		return fname(fn)
	}
	return fname(cur)
}

// checkChannelProducers: for every make(chan) in the repository, the calls of the making function that can reach a send on
// a channel (through the call graph) are goroutine starts.
func (c *Ctx) checkChannelProducers(cg *callgraph.Graph) {
	// functions that can reach a Send
	sends := map[*ssa.Function]bool{}
	for _, fn := range c.srcFuncs() {
		allInstrs(fn, func(in ssa.Instruction) {
			if _, ok := in.(*ssa.Send); ok {
				sends[fn] = true
			}
		})
	}
	for changed := true; changed; {
		changed = false
		for fn, node := range cg.Nodes {
			if fn == nil || sends[fn] || !c.isRepoFunc(fn) {
				continue
			}
			for _, e := range node.Out {
				if _, isGo := e.Site.(*ssa.Go); isGo {
					continue
				}
				if e.Callee.Func != nil && sends[e.Callee.Func] {
					sends[fn] = true
					changed = true
					break
				}
			}
		}
	}
	for _, fn := range c.srcFuncs() {
		var mk *ssa.MakeChan
		allInstrs(fn, func(in ssa.Instruction) {
			if m, ok := in.(*ssa.MakeChan); ok {
				mk = m
			}
		})
		if mk == nil {
			continue
		}
		c.site(1)
		problem := ""
		node := cg.Nodes[fn]
		if node != nil {
			for _, e := range node.Out {
				if _, isGo := e.Site.(*ssa.Go); isGo || e.Callee.Func == nil || !sends[e.Callee.Func] {
					continue
				}
				if e.Site != nil && e.Site.Parent() == fn {
					problem = fmt.Sprintf("calls %s, which sends on a channel, synchronously", fname(e.Callee.Func))
				}
			}
		}
		c.check(problem == "", "chan|"+fname(fn), c.pos(mk.Pos()), fname(fn), "the code that fills the channel runs in its own goroutine", fmt.Sprintf("%s makes a channel and %s: once there is more to send than the buffer holds, the producer blocks before anyone reads (the command hangs on larger inputs)", fname(fn), problem))
	}
}

// decodedInside: the named types that are read from YAML as part of another value (below the element level of a
// top-level slice target), over every yaml decode call of the repo.
func (c *Ctx) decodedInside() map[*types.Named]bool {
	if c.decodedInsideCache != nil {
		return c.decodedInsideCache
	}
	out := map[*types.Named]bool{}
	seen := map[types.Type]bool{}
	var walk func(t types.Type, inside bool)
	walk = func(t types.Type, inside bool) {
		if n := namedOf(t); n != nil && types.Identical(n, t) {
			if inside {
				out[n] = true
			}
			if seen[t] {
				return
			}
			seen[t] = true
			if hasMethod(t, "UnmarshalYAML") {
				// decodes itself: what it reads is judged at its own decode call
				return
			}
		}
		switch u := t.Underlying().(type) {
		case *types.Pointer:
			walk(u.Elem(), inside)
		case *types.Slice:
			walk(u.Elem(), inside)
		case *types.Array:
			walk(u.Elem(), inside)
		case *types.Map:
			walk(u.Elem(), true)
		case *types.Struct:
			for i := 0; i < u.NumFields(); i++ {
				walk(u.Field(i).Type(), true)
			}
		}
	}
	for _, fn := range c.srcFuncs() {
		for _, ci := range callsIn(fn) {
			switch calleeName(ci.Common()) {
			case "gopkg.in/yaml.v3.Unmarshal", "gopkg.in/yaml.v3.Node.Decode", "gopkg.in/yaml.v3.Decoder.Decode":
			default:
				continue
			}
			target := ci.Common().Args[len(ci.Common().Args)-1]
			if mi, ok := target.(*ssa.MakeInterface); ok {
				target = mi.X
			}
			if pt, ok := target.Type().Underlying().(*types.Pointer); ok {
				// the target itself and, for a slice target, its elements are the decode function's own business
				t := pt.Elem()
				if sl, ok := t.Underlying().(*types.Slice); ok {
					t = sl.Elem()
					if p, ok := t.Underlying().(*types.Pointer); ok {
						t = p.Elem()
					}
				}
				if st, ok := t.Underlying().(*types.Struct); ok && !hasMethod(t, "UnmarshalYAML") {
					seen[t] = true
					for i := 0; i < st.NumFields(); i++ {
						walk(st.Field(i).Type(), true)
					}
				} else {
					walk(t, false)
				}
			}
		}
	}
	c.decodedInsideCache = out
	return out
}
