package main

import (
	"fmt"
	"go/constant"
	"go/types"
	"os"
	"sort"
	"strings"

	"golang.org/x/tools/go/ssa"
)

// syllableConvertByFolding decides astconv.SyllableChordConverter.Convert on the domain the property names - the 28
// supported keys x 21 root spellings (7 letters x natural, sharp, flat) x (no bass + 21 bass spellings) = 12,936
// single chords - by folding op.NewScale on the key and then Convert on a syntax tree built for the chord:
//
//   - soundness: whenever the conversion succeeds, the degree has the number given by the letter distance from the
//     tonic and the size given by the pitch distance (raised by an octave when negative); the base, likewise, from the
//     chord root; a written bass always gives a base, no bass gives none; the symbol is the written symbol;
//   - the seven notes of the key's own scale are accepted as roots and as bass notes over one another;
//   - the scale the converter reads from is the same after the call as before it.
//
// ok=false when something on the way does not fold; the data-flow facts on the converter's functions then stand alone.
func (c *Ctx) syllableConvertByFolding() (string, int, bool) {
	conv := c.fn("astconv", "SyllableChordConverter.Convert")
	newScale := c.fn("op", "NewScale")
	astPkg := c.pkg("input/ast")
	if conv == nil || newScale == nil || astPkg == nil {
		return "", 0, false
	}
	debug := os.Getenv("CRDCHECK_DEBUG") != ""
	names := c.enumConsts("note", "Name")
	accs := c.enumConsts("op", "Accidental")
	dnames := c.enumConsts("note", "DegreeName")
	dnameOf := map[int64]string{}
	for k, v := range dnames {
		dnameOf[v] = k
	}
	tokType := map[string]int64{}
	for _, n := range []string{"SYLLABLE", "SHARP", "FLAT", "SYMBOL"} {
		k, _, ok := c.constOf("input/ast", n)
		if !ok {
			return "", 0, false
		}
		tokType[n], _ = constant.Int64Val(k)
	}
	accConst := map[int]string{0: "Natural", 1: "Sharp", -1: "Flat"}
	accMark := map[int]string{0: "", 1: "#", -1: "b"}
	type sp struct {
		letter string
		acc    int
	}
	var spellings []sp
	for _, l := range specLetters {
		for _, a := range []int{0, 1, -1} {
			spellings = append(spellings, sp{l, a})
		}
	}
	pitch := func(s sp) int { return specNatural(s.letter) + s.acc }
	// what a successful conversion must have produced for the interval from a to b
	expect := func(d fval, a, b sp) string {
		if d.fields == nil || d.fields["Value"].k == nil || d.fields["Name"].k == nil {
			return "?"
		}
		gv, _ := constant.Int64Val(d.fields["Value"].k)
		gn, _ := constant.Int64Val(d.fields["Name"].k)
		number := (specLetterIndex(b.letter)-specLetterIndex(a.letter)+7)%7 + 1
		size := pitch(b) - pitch(a)
		if size < 0 {
			size += 12
		}
		gq, known := degreeNameQuality[dnameOf[gn]]
		gs, valid := 0, false
		if known {
			gs, valid = specSize(int(gv), gq)
		}
		if int(gv) != number || !valid || gs != size {
			return fmt.Sprintf("yields %s %d (%d semitones), but the letters are a %d apart and the pitches %d semitones", dnameOf[gn], gv, gs, number, size)
		}
		return ""
	}
	calls := 0
	for _, ks := range requiredKeys() {
		k := SpecKey{Letter: ks[:1]}
		rest := ks[1:]
		if len(rest) > 0 && rest[len(rest)-1] == 'm' {
			k.Minor = true
			rest = rest[:len(rest)-1]
		}
		switch rest {
		case "#":
			k.Acc = 1
		case "b":
			k.Acc = -1
		}
		want, werr := specScale(k)
		if werr != nil {
			return "", 0, false
		}
		inScale := map[sp]bool{}
		for i := 0; i < 7; i++ {
			inScale[sp{want.Notes[i], want.Accs[i]}] = true
		}
		tonic := sp{k.Letter, k.Acc}
		fd := c.newFolder()
		fd.maxSteps = 40000
		fd.maxDepth = 12
		key := fval{fields: map[string]fval{"Name": {k: constant.MakeInt64(names[k.Letter])}, "Accidental": {k: constant.MakeInt64(accs[accConst[k.Acc]])}, "Minor": {k: constant.MakeBool(k.Minor)}}}
		sr, err := fd.foldCall(newScale, []fval{key})
		if err != nil || len(sr.tuple) != 2 || !sr.tuple[1].isNil || sr.tuple[0].addr == nil && sr.tuple[0].cvptr == nil {
			if debug {
				fmt.Fprintf(os.Stderr, "syllableConvertByFolding: NewScale(%s) does not fold: %v %s\n", ks, err, sr.String())
			}
			return "", 0, false
		}
		heap := fd.heap
		if heap == nil {
			heap = map[*ssa.Alloc]fval{}
		}
		scalePtr := sr.tuple[0]
		scaleBefore := fd.describeDeep(scalePtr, 0)
		fd.invokeRecv = func(call *ssa.Call, recv fval, args []fval) (fval, bool) {
			if debug {
				fmt.Fprintf(os.Stderr, "  invoke %s on %s\n", call.Call.Method.Name(), recv.String())
			}
			if recv.addr == nil || len(recv.addr.path) != 0 {
				return top, false
			}
			cell, ok := heap[recv.addr.base]
			if !ok || cell.fields == nil {
				return top, false
			}
			switch call.Call.Method.Name() {
			case "Value":
				v, ok := cell.fields["VValue"]
				return v, ok
			case "Type":
				v, ok := cell.fields["VType"]
				return v, ok
			}
			return top, false
		}
		cellOf := func(v fval) fval {
			cell := new(ssa.Alloc)
			heap[cell] = v
			return fval{addr: &faddr{base: cell}}
		}
		mkTok := func(typ int64, val string) fval {
			return cellOf(fval{fields: map[string]fval{
				"VType":  {k: constant.MakeInt64(typ), t: types.Typ[types.Int]},
				"VValue": {k: constant.MakeString(val), t: types.Typ[types.String]},
			}})
		}
		mkDegree := func(s sp) fval {
			acc := fval{isNil: true}
			switch s.acc {
			case 1:
				acc = mkTok(tokType["SHARP"], "#")
			case -1:
				acc = mkTok(tokType["FLAT"], "b")
			}
			return cellOf(fval{fields: map[string]fval{"Degree": mkTok(tokType["SYLLABLE"], s.letter), "Accidental": acc}})
		}
		recv := fval{fields: map[string]fval{"scale": scalePtr}}
		if _, isPtr := conv.Params[0].Type().Underlying().(*types.Pointer); isPtr {
			recv = cellOf(recv)
		}
		for ri, root := range spellings {
			for bi := -1; bi < len(spellings); bi++ {
				// every other chord carries a symbol
				symbol := ""
				if (ri+bi)%2 == 0 {
					symbol = "m7"
				}
				fields := map[string]fval{"Degree": mkDegree(root), "Base": {isNil: true}, "Symbol": {isNil: true}, "Values": {isNil: true}, "Meta": {isNil: true}}
				if bi >= 0 {
					fields["Base"] = cellOf(fval{fields: map[string]fval{"Degree": mkDegree(spellings[bi])}})
				}
				if symbol != "" {
					fields["Symbol"] = cellOf(fval{fields: map[string]fval{"Symbol": mkTok(tokType["SYMBOL"], symbol)}})
				}
				what := fmt.Sprintf("in %s, %s%s", ks, root.letter, accMark[root.acc])
				if bi >= 0 {
					what += fmt.Sprintf("/%s%s", spellings[bi].letter, accMark[spellings[bi].acc])
				}
				fd.steps = 0
				r, err := fd.foldCallEnv(conv, []fval{recv, cellOf(fval{fields: fields})}, nil, heap)
				if err != nil || len(r.tuple) != 2 || !(r.tuple[1].isNil || r.tuple[1].nonNil) {
					if debug {
						fmt.Fprintf(os.Stderr, "syllableConvertByFolding: %s does not fold: %v %s\n", what, err, r.String())
						if g := c.fn("note", "NewName"); g != nil {
							fd.steps = 0
							r2, err2 := fd.foldCallEnv(g, []fval{{k: constant.MakeString("C"), t: types.Typ[types.String]}}, nil, heap)
							fmt.Fprintf(os.Stderr, "  NewName: %v %s\n", err2, r2.String())
							r2 = fd.deref(fields["Degree"])
							fmt.Fprintf(os.Stderr, "  degree node: %s\n", fd.describeDeep(r2, 0))
						}
						for _, nm := range []string{"SyllableChordConverter.newScaleNote", "SyllableChordConverter.getTendency"} {
							if g := c.fn("astconv", nm); g != nil {
								fd.steps = 0
								arg := fields["Degree"]
								if nm == "SyllableChordConverter.getTendency" {
									arg = cellOf(fval{fields: map[string]fval{"Name": {k: constant.MakeInt64(names[root.letter])}, "Accidental": {k: constant.MakeInt64(accs[accConst[root.acc]])}}})
								}
								r2, err2 := fd.foldCallEnv(g, []fval{recv, arg}, nil, heap)
								fmt.Fprintf(os.Stderr, "  %s: %v %s\n", nm, err2, r2.String())
							}
						}
					}
					return "", 0, false
				}
				if len(fd.incomplete) > 0 {
					if debug {
						fmt.Fprintf(os.Stderr, "syllableConvertByFolding: incomplete: %s\n", fd.incomplete[0])
					}
					return "", 0, false
				}
				calls++
				if after := fd.describeDeep(scalePtr, 0); after != scaleBefore {
					return fmt.Sprintf("%s: the conversion changes the scale it reads from (%s -> %s): the chords after it are read in another key", what, scaleBefore, after), calls, true
				}
				if r.tuple[1].nonNil {
					if inScale[root] && (bi < 0 || inScale[spellings[bi]]) {
						return what + ": refused, although every note of it belongs to the key's own scale", calls, true
					}
					continue
				}
				res := fd.deref(r.tuple[0])
				if res.fields == nil {
					if debug {
						fmt.Fprintf(os.Stderr, "syllableConvertByFolding: %s: result not known: %s\n", what, r.String())
					}
					return "", 0, false
				}
				if p := expect(res.fields["Degree"], tonic, root); p == "?" {
					return "", 0, false
				} else if p != "" {
					return what + ": the root " + p, calls, true
				}
				base := res.fields["Base"]
				switch {
				case bi < 0:
					if !base.isNil {
						if !base.known() {
							return "", 0, false
						}
						return what + ": a base is set although no bass is written", calls, true
					}
				case base.isNil:
					return what + ": succeeds without a base: the written bass is dropped without a word", calls, true
				default:
					bv := fd.deref(base)
					if p := expect(bv, root, spellings[bi]); p == "?" {
						return "", 0, false
					} else if p != "" {
						return what + ": the bass " + p, calls, true
					}
				}
				sym := res.fields["Chord"]
				if sym.k == nil || sym.k.Kind() != constant.String {
					if symbol == "" && !sym.known() {
						// a zero string that was never written
						continue
					}
					return "", 0, false
				}
				if got := constant.StringVal(sym.k); got != symbol {
					return fmt.Sprintf("%s with the symbol %q: the chord's name is %q", what, symbol, got), calls, true
				}
			}
		}
	}
	return "", calls, true
}

// describeDeep prints a value with what its pointers point to (to compare a structure before and after a call).
func (f *folder) describeDeep(v fval, depth int) string {
	if depth > 9 {
		return "..."
	}
	if v.addr != nil || v.cvptr != nil {
		return "&" + f.describeDeep(f.deref(v), depth+1)
	}
	if v.fields != nil {
		s := "{"
		for _, k := range sortedKeys(v.fields) {
			s += k + ":" + f.describeDeep(v.fields[k], depth+1) + ","
		}
		return s + "}"
	}
	return v.String()
}

// degreeConvertByFolding decides astconv.DegreeChordConverter.Convert by folding it on syntax trees for the numbers
// 1..15 x (no accidental, `#`, U+266F, `b`, U+266D - the token type says SHARP / FLAT, the text is what was written)
// x (no bass + four basses), every other chord with a symbol: the degree read is the interval the notation names (no
// mark: major / perfect; sharp: augmented; flat: minor, or diminished on 1, 4, 5 and their compounds), the base
// likewise, the symbol the written one. ok=false when it does not fold.
func (c *Ctx) degreeConvertByFolding() (string, int, bool) {
	conv := c.fn("astconv", "DegreeChordConverter.Convert")
	if conv == nil || c.pkg("input/ast") == nil {
		return "", 0, false
	}
	debug := os.Getenv("CRDCHECK_DEBUG") != ""
	dnames := c.enumConsts("note", "DegreeName")
	dnameOf := map[int64]string{}
	for k, v := range dnames {
		dnameOf[v] = k
	}
	tokType := map[string]int64{}
	for _, n := range []string{"NUMBER", "SHARP", "FLAT", "SYMBOL"} {
		k, _, ok := c.constOf("input/ast", n)
		if !ok {
			return "", 0, false
		}
		tokType[n], _ = constant.Int64Val(k)
	}
	type mark struct {
		typ, text string
		dir       int
	}
	marks := []mark{{"", "", 0}, {"SHARP", "#", 1}, {"SHARP", "♯", 1}, {"FLAT", "b", -1}, {"FLAT", "♭", -1}}
	quality := func(dir, n int) Quality {
		simple := (n-1)%7 + 1
		perfect := simple == 1 || simple == 4 || simple == 5
		switch {
		case dir > 0:
			return QAugmented
		case dir < 0 && perfect:
			return QDiminished
		case dir < 0:
			return QMinor
		case perfect:
			return QPerfect
		}
		return QMajor
	}
	type wr struct {
		n int
		m mark
	}
	basses := []*wr{nil, {3, marks[0]}, {5, marks[3]}, {7, marks[2]}, {12, marks[4]}}
	check := func(d fval, w wr) string {
		if d.fields == nil || d.fields["Value"].k == nil || d.fields["Name"].k == nil {
			return "?"
		}
		gv, _ := constant.Int64Val(d.fields["Value"].k)
		gn, _ := constant.Int64Val(d.fields["Name"].k)
		q := quality(w.m.dir, w.n)
		gq, known := degreeNameQuality[dnameOf[gn]]
		if !known || gq != q || int(gv) != w.n {
			return fmt.Sprintf("%d%s is read as %s %d, the notation says %s %d", w.n, w.m.text, dnameOf[gn], gv, qualityNames[q], w.n)
		}
		return ""
	}
	calls := 0
	fd := c.newFolder()
	fd.maxSteps = 40000
	fd.maxDepth = 12
	heap := map[*ssa.Alloc]fval{}
	fd.invokeRecv = func(call *ssa.Call, recv fval, args []fval) (fval, bool) {
		if recv.addr == nil || len(recv.addr.path) != 0 {
			return top, false
		}
		cell, ok := heap[recv.addr.base]
		if !ok || cell.fields == nil {
			return top, false
		}
		switch call.Call.Method.Name() {
		case "Value":
			v, ok := cell.fields["VValue"]
			return v, ok
		case "Type":
			v, ok := cell.fields["VType"]
			return v, ok
		}
		return top, false
	}
	cellOf := func(v fval) fval {
		cell := new(ssa.Alloc)
		heap[cell] = v
		return fval{addr: &faddr{base: cell}}
	}
	mkTok := func(typ int64, val string) fval {
		return cellOf(fval{fields: map[string]fval{
			"VType":  {k: constant.MakeInt64(typ), t: types.Typ[types.Int]},
			"VValue": {k: constant.MakeString(val), t: types.Typ[types.String]},
		}})
	}
	mkDegree := func(w wr) fval {
		acc := fval{isNil: true}
		if w.m.typ != "" {
			acc = mkTok(tokType[w.m.typ], w.m.text)
		}
		return cellOf(fval{fields: map[string]fval{"Degree": mkTok(tokType["NUMBER"], fmt.Sprint(w.n)), "Accidental": acc}})
	}
	recv := fval{fields: map[string]fval{}}
	if _, isPtr := conv.Params[0].Type().Underlying().(*types.Pointer); isPtr {
		recv = cellOf(recv)
	}
	for n := 1; n <= 15; n++ {
		for mi, m := range marks {
			for bi, b := range basses {
				root := wr{n, m}
				symbol := ""
				if (n+mi+bi)%2 == 0 {
					symbol = "m7"
				}
				fields := map[string]fval{"Degree": mkDegree(root), "Base": {isNil: true}, "Symbol": {isNil: true}, "Values": {isNil: true}, "Meta": {isNil: true}}
				what := fmt.Sprintf("%d%s", n, m.text)
				if b != nil {
					fields["Base"] = cellOf(fval{fields: map[string]fval{"Degree": mkDegree(*b)}})
					what += fmt.Sprintf("/%d%s", b.n, b.m.text)
				}
				if symbol != "" {
					fields["Symbol"] = cellOf(fval{fields: map[string]fval{"Symbol": mkTok(tokType["SYMBOL"], symbol)}})
				}
				fd.steps = 0
				r, err := fd.foldCallEnv(conv, []fval{recv, cellOf(fval{fields: fields})}, nil, heap)
				if err != nil || len(r.tuple) != 2 || !(r.tuple[1].isNil || r.tuple[1].nonNil) {
					if debug {
						fmt.Fprintf(os.Stderr, "degreeConvertByFolding: %s does not fold: %v %s\n", what, err, r.String())
					}
					return "", 0, false
				}
				calls++
				if r.tuple[1].nonNil {
					return what + ": refused, although the notation names an interval", calls, true
				}
				res := fd.deref(r.tuple[0])
				if res.fields == nil {
					return "", 0, false
				}
				if p := check(res.fields["Degree"], root); p == "?" {
					return "", 0, false
				} else if p != "" {
					return what + ": the root " + p, calls, true
				}
				base := res.fields["Base"]
				switch {
				case b == nil:
					if !base.isNil {
						if !base.known() {
							return "", 0, false
						}
						return what + ": a base is set although no bass is written", calls, true
					}
				case base.isNil:
					return what + ": succeeds without a base: the written bass is dropped", calls, true
				default:
					if p := check(fd.deref(base), *b); p == "?" {
						return "", 0, false
					} else if p != "" {
						return what + ": the bass " + p, calls, true
					}
				}
				sym := res.fields["Chord"]
				if sym.k == nil || sym.k.Kind() != constant.String {
					if symbol == "" && !sym.known() {
						continue
					}
					return "", 0, false
				}
				if got := constant.StringVal(sym.k); got != symbol {
					return fmt.Sprintf("%s with the symbol %q: the chord's name is %q", what, symbol, got), calls, true
				}
			}
		}
	}
	return "", calls, true
}

// parseKeyByFolding decides op.ParseKey on 756 spellings - letter (A..G, H, a) x accidental ("", #, b, ##, bb, U+266F,
// x) x minor mark ("", m, M, mm), each as it is, with a blank in front and with a blank behind - by folding: a spelling
// is accepted exactly when it is one letter A-G, at most one of # and b, at most one m and nothing else, and the key
// read is that letter, that accidental and that mode. ok=false when ParseKey does not fold.
func (c *Ctx) parseKeyByFolding() (string, int, bool) {
	if c.parseKeyFold != nil {
		return c.parseKeyFold.problem, c.parseKeyFold.n, c.parseKeyFold.ok
	}
	p, n, ok := c.parseKeyByFoldingUncached()
	c.parseKeyFold = &foldVerdict{p, n, ok}
	return p, n, ok
}

func (c *Ctx) parseKeyByFoldingUncached() (string, int, bool) {
	fn := c.fn("op", "ParseKey")
	if fn == nil || len(fn.Params) != 1 {
		return "", 0, false
	}
	names := c.enumConsts("note", "Name")
	accs := c.enumConsts("op", "Accidental")
	accOf := map[string]string{"": "Natural", "#": "Sharp", "b": "Flat"}
	n := 0
	for _, letter := range []string{"A", "B", "C", "D", "E", "F", "G", "H", "a"} {
		for _, acc := range []string{"", "#", "b", "##", "bb", "♯", "x"} {
			for _, minor := range []string{"", "m", "M", "mm"} {
				for _, pad := range [][2]string{{"", ""}, {" ", ""}, {"", " "}} {
					text := pad[0] + letter + acc + minor + pad[1]
					_, okL := names[letter]
					an, okA := accOf[acc]
					valid := okL && okA && (minor == "" || minor == "m") && pad[0] == "" && pad[1] == ""
					fd := c.newFolder()
					fd.maxSteps = 20000
					r, err := fd.foldCall(fn, []fval{{k: constant.MakeString(text), t: types.Typ[types.String]}})
					if err != nil || len(r.tuple) != 2 || !(r.tuple[1].isNil || r.tuple[1].nonNil) {
						if os.Getenv("CRDCHECK_DEBUG") != "" {
							fmt.Fprintf(os.Stderr, "parseKeyByFolding: %q does not fold: %v %s\n", text, err, r.String())
						}
						return "", 0, false
					}
					n++
					if r.tuple[1].nonNil {
						if valid {
							return fmt.Sprintf("%q is refused, it spells a key", text), n, true
						}
						continue
					}
					if !valid {
						return fmt.Sprintf("%q is accepted (as %s), it is not a key spelling: nonsense is turned into some key instead of being refused", text, r.tuple[0].String()), n, true
					}
					k := r.tuple[0]
					if k.fields == nil || k.fields["Name"].k == nil || k.fields["Accidental"].k == nil || k.fields["Minor"].k == nil {
						return "", 0, false
					}
					gn, _ := constant.Int64Val(k.fields["Name"].k)
					ga, _ := constant.Int64Val(k.fields["Accidental"].k)
					gm := constant.BoolVal(k.fields["Minor"].k)
					if gn != names[letter] || ga != accs[an] || gm != (minor == "m") {
						return fmt.Sprintf("%q is read as %s", text, k.String()), n, true
					}
				}
			}
		}
	}
	return "", n, true
}

// parseNoteByFolding decides what note.ParseNote accepts by folding it on letter x accidental spellings with and without
// text around them: exactly a letter A-G with nothing, # or b is read, as that note; everything else is refused.
func (c *Ctx) parseNoteByFolding() (string, int, bool) {
	fn := c.fn("note", "ParseNote")
	if fn == nil || len(fn.Params) != 1 {
		return "", 0, false
	}
	names := c.enumConsts("note", "Name")
	accs := c.enumConsts("note", "Accidental")
	accOf := map[string]string{"": "Natural", "#": "Sharp", "b": "Flat"}
	n := 0
	for _, letter := range []string{"A", "B", "C", "D", "E", "F", "G", "H", "a", "g", ""} {
		for _, acc := range []string{"", "#", "b", "##", "bb", "#b", "♯", "x", "m"} {
			for _, pad := range [][2]string{{"", ""}, {" ", ""}, {"", " "}, {"x", ""}, {"", "C"}, {"\n", ""}, {"", "\n"}} {
				text := pad[0] + letter + acc + pad[1]
				_, okL := names[letter]
				an, okA := accOf[acc]
				valid := okL && okA && pad[0] == "" && pad[1] == ""
				if !valid {
					// the same text may spell a note another way (e.g. "" + "b" + pad "C" ... no: one letter then at most one mark)
					if len(text) >= 1 && len(text) <= 2 {
						_, l2 := names[text[:1]]
						_, a2 := accOf[text[1:]]
						if l2 && a2 {
							continue
						}
					}
				}
				fd := c.newFolder()
				fd.maxSteps = 20000
				r, err := fd.foldCall(fn, []fval{{k: constant.MakeString(text), t: types.Typ[types.String]}})
				if err != nil || len(r.tuple) != 2 || !(r.tuple[1].isNil || r.tuple[1].nonNil) {
					if os.Getenv("CRDCHECK_DEBUG") != "" {
						fmt.Fprintf(os.Stderr, "parseNoteByFolding: %q does not fold: %v %s\n", text, err, r.String())
					}
					return "", 0, false
				}
				n++
				if r.tuple[1].nonNil {
					if valid {
						return fmt.Sprintf("%q is refused, it spells a note", text), n, true
					}
					continue
				}
				if !valid {
					return fmt.Sprintf("%q is accepted (as %s), it is not a note spelling: nonsense is turned into some note instead of being refused", text, r.tuple[0].String()), n, true
				}
				k := r.tuple[0]
				if k.fields == nil || k.fields["Name"].k == nil || k.fields["Accidental"].k == nil {
					return "", 0, false
				}
				gn, _ := constant.Int64Val(k.fields["Name"].k)
				ga, _ := constant.Int64Val(k.fields["Accidental"].k)
				if gn != names[letter] || ga != accs[an] {
					return fmt.Sprintf("%q is read as %s", text, k.String()), n, true
				}
			}
		}
	}
	return "", n, true
}

// metaConvertByFolding decides astconv.MetaConverterImpl.Convert by folding it on metadata blocks of 0 to 4 pairs
// (one with a repeated key): the result holds every written key with its own value - for a repeated key the value
// written last - and nothing else; no block and an empty block give no metadata.
func (c *Ctx) metaConvertByFolding() (string, int, bool) {
	conv := c.fn("astconv", "MetaConverterImpl.Convert")
	if conv == nil || len(conv.Params) != 2 {
		return "", 0, false
	}
	debug := os.Getenv("CRDCHECK_DEBUG") != ""
	k, _, ok := c.constOf("input/ast", "METADATA")
	if !ok {
		return "", 0, false
	}
	tokT, _ := constant.Int64Val(k)
	tok := func(s string) Val {
		return &PtrV{Elem: &StructV{Fields: map[string]Val{
			"VType":  &CVal{V: constant.MakeInt64(tokT), T: types.Typ[types.Int]},
			"VValue": &CVal{V: constant.MakeString(s), T: types.Typ[types.String]},
		}, Order: []string{"VType", "VValue"}}}
	}
	cases := [][][2]string{
		nil,
		{},
		{{"txt", "intro"}},
		{{"key", "Am"}, {"bpm", "90"}},
		{{"a", "1"}, {"b", "2"}, {"a", "3"}, {"c", "1"}},
		{{"x", "y"}, {"y", "x"}},
		// texts are kept as written: two blanks, a tab, a line break, blanks at the ends
		{{"lic", "la  la"}, {"txt", "verse\t1"}, {"mrk", " a\nb "}},
	}
	n := 0
	for ci, pairs := range cases {
		arg := fval{isNil: true}
		if ci > 0 {
			l := &ListV{}
			for _, p := range pairs {
				l.Elems = append(l.Elems, &PtrV{Elem: &StructV{Fields: map[string]Val{"Key": tok(p[0]), "Value": tok(p[1])}, Order: []string{"Key", "Value"}}})
			}
			arg = fval{cvptr: &StructV{Fields: map[string]Val{"Data": l}, Order: []string{"Data"}}}
		}
		fd := c.newFolder()
		fd.maxSteps = 20000
		fd.invokeRecv = func(call *ssa.Call, recv fval, args []fval) (fval, bool) {
			sv, ok := recv.cvptr.(*StructV)
			if !ok {
				return top, false
			}
			switch call.Call.Method.Name() {
			case "Value":
				return fromVal(sv.Fields["VValue"]), true
			case "Type":
				return fromVal(sv.Fields["VType"]), true
			}
			return top, false
		}
		recv := fval{fields: map[string]fval{}}
		r, err := fd.foldCall(conv, []fval{recv, arg})
		if err != nil || !r.known() {
			if debug {
				fmt.Fprintf(os.Stderr, "metaConvertByFolding: case %d does not fold: %v %s\n", ci, err, r.String())
			}
			return "", 0, false
		}
		n++
		want := map[string]string{}
		for _, p := range pairs {
			want[p[0]] = p[1]
		}
		what := fmt.Sprintf("a block of %d pairs %v", len(pairs), pairs)
		if len(pairs) == 0 {
			if !r.isNil {
				// an empty map would do as well: nothing to keep
				if mv, ok := fd.deref(r).cv.(*MapV); !ok || len(mv.Entries) != 0 {
					return what + " gives metadata", n, true
				}
			}
			continue
		}
		if r.isNil {
			return what + " gives no metadata", n, true
		}
		mv, ok := fd.deref(r).cv.(*MapV)
		if !ok || (fd.poisoned != nil && fd.poisoned[mv]) {
			if debug {
				fmt.Fprintf(os.Stderr, "metaConvertByFolding: case %d: result is not a known map: %s\n", ci, fd.deref(r).String())
			}
			return "", 0, false
		}
		got := map[string]string{}
		for _, e := range mv.Entries {
			ks, ok1 := asStr(e.K)
			vs, ok2 := asStr(e.V)
			if !ok1 || !ok2 {
				return "", 0, false
			}
			got[ks] = vs
		}
		if fmt.Sprint(got) != fmt.Sprint(want) {
			return fmt.Sprintf("%s gives %v, want %v", what, got, want), n, true
		}
	}
	return "", n, true
}

// circleByFolding decides the circle-of-fifths conversions by folding: op.NewCircleOfFifth() once, then
// op.KeyConversionChain.Convert on it for each of the 28 supported keys and every chain over {p, r, d, s} of length 1
// to 2, the chains x y x of length 3, twelve dominants and twelve subdominants. Each answer is compared with the
// checker's own arithmetic: dominant moves the tonic up a fifth, subdominant down, keeping the mode; relative keeps the
// signature (a minor third down to the minor, up to the major); parallel keeps the tonic; the member answered lists
// every supported spelling of that key and nothing else; every chain succeeds. ok=false when something does not fold.
func (c *Ctx) circleVerdict() (string, int, bool) {
	if c.circleFold == nil {
		p, n, ok := c.circleByFolding()
		c.circleFold = &foldVerdict{p, n, ok}
	}
	return c.circleFold.problem, c.circleFold.n, c.circleFold.ok
}

func (c *Ctx) circleByFolding() (string, int, bool) {
	newC, conv := c.fn("op", "NewCircleOfFifth"), c.fn("op", "KeyConversionChain.Convert")
	if newC == nil || conv == nil || len(conv.Params) != 3 {
		return "", 0, false
	}
	names := c.enumConsts("note", "Name")
	accs := c.enumConsts("op", "Accidental")
	kcs := c.enumConsts("op", "KeyConversion")
	nameOf, accOf := map[int64]string{}, map[int64]string{}
	for k, v := range names {
		nameOf[v] = k
	}
	for k, v := range accs {
		accOf[v] = map[string]string{"Natural": "", "Sharp": "#", "Flat": "b"}[k]
	}
	type pm = struct {
		pc    int
		minor bool
	}
	parse := func(ks string) (SpecKey, pm) {
		k := SpecKey{Letter: ks[:1]}
		rest := ks[1:]
		if len(rest) > 0 && rest[len(rest)-1] == 'm' {
			k.Minor = true
			rest = rest[:len(rest)-1]
		}
		switch rest {
		case "#":
			k.Acc = 1
		case "b":
			k.Acc = -1
		}
		return k, pm{k.pc(), k.Minor}
	}
	spellings := map[pm][]string{}
	for _, ks := range requiredKeys() {
		_, p := parse(ks)
		spellings[p] = append(spellings[p], ks)
	}
	for _, v := range spellings {
		sort.Strings(v)
	}
	step := func(p pm, letter byte) pm {
		switch letter {
		case 'd':
			return pm{(p.pc + 7) % 12, p.minor}
		case 's':
			return pm{(p.pc + 5) % 12, p.minor}
		case 'p':
			return pm{p.pc, !p.minor}
		default: // r
			if p.minor {
				return pm{(p.pc + 3) % 12, false}
			}
			return pm{(p.pc + 9) % 12, true}
		}
	}
	convConst := map[byte]int64{'p': kcs["ParallelKey"], 'r': kcs["RelativeKey"], 'd': kcs["DominantKey"], 's': kcs["SubDominantKey"]}
	var chains []string
	letters := "prds"
	for _, a := range letters {
		chains = append(chains, string(a))
		for _, b := range letters {
			chains = append(chains, string(a)+string(b), string(a)+string(b)+string(a))
		}
	}
	chains = append(chains, strings.Repeat("d", 12), strings.Repeat("s", 12), "dsdsdsds", "prprpr")
	return c.circleByFoldingOrder(newC, conv, chains, parse, spellings, step, convConst, names, accs, nameOf, accOf)
}

func (c *Ctx) circleByFoldingOrder(newC, conv *ssa.Function, chains []string, parse func(string) (SpecKey, struct {
	pc    int
	minor bool
}), spellings map[struct {
	pc    int
	minor bool
}][]string, step func(struct {
	pc    int
	minor bool
}, byte) struct {
	pc    int
	minor bool
}, convConst map[byte]int64, names, accs map[string]int64, nameOf, accOf map[int64]string) (string, int, bool) {
	total := 0
	for _, rev := range []bool{false, true} {
		p, n, ok := c.circleByFoldingOnce(rev, newC, conv, chains, parse, spellings, step, convConst, names, accs, nameOf, accOf)
		total += n
		if !ok || p != "" {
			return p, total, ok
		}
	}
	return "", total, true
}

func (c *Ctx) circleByFoldingOnce(reverse bool, newC, conv *ssa.Function, chains []string, parse func(string) (SpecKey, struct {
	pc    int
	minor bool
}), spellings map[struct {
	pc    int
	minor bool
}][]string, step func(struct {
	pc    int
	minor bool
}, byte) struct {
	pc    int
	minor bool
}, convConst map[byte]int64, names, accs map[string]int64, nameOf, accOf map[int64]string) (string, int, bool) {
	debug := os.Getenv("CRDCHECK_DEBUG") != ""
	fd := c.newFolder()
	fd.maxSteps = 4000000
	fd.maxDepth = 16
	fd.reverseMaps = reverse
	cof, err := fd.foldCall(newC, nil)
	if err != nil || cof.fields == nil {
		if debug {
			fmt.Fprintf(os.Stderr, "circleByFolding: NewCircleOfFifth does not fold: %v %s\n", err, cof.String())
		}
		return "", 0, false
	}
	heap := fd.heap
	kcT := conv.Params[0].Type()
	n := 0
	for _, ks := range requiredKeys() {
		sk, start := parse(ks)
		key := fval{fields: map[string]fval{"Name": {k: constant.MakeInt64(names[sk.Letter])}, "Accidental": {k: constant.MakeInt64(accs[map[int]string{0: "Natural", 1: "Sharp", -1: "Flat"}[sk.Acc]])}, "Minor": {k: constant.MakeBool(sk.Minor)}}}
		for _, ch := range chains {
			l := &ListV{T: kcT}
			want := start
			for i := 0; i < len(ch); i++ {
				l.Elems = append(l.Elems, &CVal{V: constant.MakeInt64(convConst[ch[i]])})
				want = step(want, ch[i])
			}
			fd.steps = 0
			r, err := fd.foldCallEnv(conv, []fval{{cv: l, t: kcT}, cof, key}, nil, heap)
			if err != nil || len(r.tuple) != 2 || !(r.tuple[1].isNil || r.tuple[1].nonNil) {
				if debug {
					fmt.Fprintf(os.Stderr, "circleByFolding: %s -c %q does not fold: %v %s\n", ks, ch, err, r.String())
				}
				return "", 0, false
			}
			if len(fd.incomplete) > 0 {
				if debug {
					fmt.Fprintf(os.Stderr, "circleByFolding: incomplete: %s\n", fd.incomplete[0])
				}
				return "", 0, false
			}
			n++
			what := fmt.Sprintf("info key conv --key %s -c %q", ks, ch)
			if r.tuple[1].nonNil {
				return what + " fails: every chain from a supported key succeeds", n, true
			}
			mv, ok := r.tuple[0].fields["scales"].cv.(*MapV)
			if !ok {
				// the member's only field, whatever its name
				for _, fv := range r.tuple[0].fields {
					if m2, ok2 := fv.cv.(*MapV); ok2 {
						mv, ok = m2, true
					}
				}
			}
			if !ok || (fd.poisoned != nil && fd.poisoned[mv]) {
				if debug {
					fmt.Fprintf(os.Stderr, "circleByFolding: %s -c %q: the member is not a known map: %s\n", ks, ch, r.tuple[0].String())
				}
				return "", 0, false
			}
			var got []string
			for _, e := range mv.Entries {
				kv, ok := e.K.(*StructV)
				if !ok {
					return "", 0, false
				}
				nv, ok1 := kv.Fields["Name"].(*CVal)
				av, ok2 := kv.Fields["Accidental"].(*CVal)
				mvv, ok3 := kv.Fields["Minor"].(*CVal)
				if !ok1 || !ok2 || !ok3 {
					return "", 0, false
				}
				ni, _ := constant.Int64Val(nv.V)
				ai, _ := constant.Int64Val(av.V)
				s := nameOf[ni] + accOf[ai]
				if constant.BoolVal(mvv.V) {
					s += "m"
				}
				got = append(got, s)
			}
			sort.Strings(got)
			if strings.Join(got, " ") != strings.Join(spellings[want], " ") {
				return fmt.Sprintf("%s answers [%s], the steps compose to [%s]", what, strings.Join(got, " "), strings.Join(spellings[want], " ")), n, true
			}
		}
	}
	return "", n, true
}

// degreeTypeByFolding decides astconv.ASTTypeClassifier.degreeType by folding it on a root or bass written with each of
// the 7 letters and the numbers 1..15 (and 01), each without an accidental and with `#`, U+266F, `b`, U+266D, and on
// three things that are neither: a letter is a note name whatever its accidental, digits are a degree, anything else is
// unknown. ok=false when it does not fold.
func (c *Ctx) degreeTypeByFolding() (string, int, bool) {
	fn := c.fn("astconv", "ASTTypeClassifier.degreeType")
	if fn == nil || len(fn.Params) != 2 {
		return "", 0, false
	}
	at := c.enumConsts("astconv", "ASTType")
	tokType := map[string]int64{}
	for _, n := range []string{"SYLLABLE", "NUMBER", "SHARP", "FLAT"} {
		k, _, ok := c.constOf("input/ast", n)
		if !ok {
			return "", 0, false
		}
		tokType[n], _ = constant.Int64Val(k)
	}
	type mark struct{ typ, text string }
	marks := []mark{{"", ""}, {"SHARP", "#"}, {"SHARP", "♯"}, {"FLAT", "b"}, {"FLAT", "♭"}}
	type probe struct {
		tok, text, want string
	}
	var probes []probe
	for _, l := range specLetters {
		probes = append(probes, probe{"SYLLABLE", l, "SyllableAST"})
	}
	for n := 1; n <= 15; n++ {
		probes = append(probes, probe{"NUMBER", fmt.Sprint(n), "DegreeAST"})
	}
	probes = append(probes, probe{"NUMBER", "01", "DegreeAST"}, probe{"SYLLABLE", "H", "UnknownASTType"}, probe{"SYLLABLE", "", "UnknownASTType"}, probe{"SYLLABLE", "c", "UnknownASTType"})
	n := 0
	for _, p := range probes {
		for _, m := range marks {
			fd := c.newFolder()
			fd.maxSteps = 20000
			heap := map[*ssa.Alloc]fval{}
			fd.invokeRecv = func(call *ssa.Call, recv fval, args []fval) (fval, bool) {
				if recv.addr == nil {
					return top, false
				}
				cell, ok := heap[recv.addr.base]
				if !ok || cell.fields == nil {
					return top, false
				}
				switch call.Call.Method.Name() {
				case "Value":
					return cell.fields["VValue"], true
				case "Type":
					return cell.fields["VType"], true
				}
				return top, false
			}
			cellOf := func(v fval) fval {
				cell := new(ssa.Alloc)
				heap[cell] = v
				return fval{addr: &faddr{base: cell}}
			}
			mkTok := func(typ int64, val string) fval {
				return cellOf(fval{fields: map[string]fval{"VType": {k: constant.MakeInt64(typ), t: types.Typ[types.Int]}, "VValue": {k: constant.MakeString(val), t: types.Typ[types.String]}}})
			}
			acc := fval{isNil: true}
			if m.typ != "" {
				acc = mkTok(tokType[m.typ], m.text)
			}
			arg := cellOf(fval{fields: map[string]fval{"Degree": mkTok(tokType[p.tok], p.text), "Accidental": acc}})
			r, err := fd.foldCallEnv(fn, []fval{{fields: map[string]fval{}}, arg}, nil, heap)
			if err != nil || r.k == nil || r.k.Kind() != constant.Int {
				if os.Getenv("CRDCHECK_DEBUG") != "" {
					fmt.Fprintf(os.Stderr, "degreeTypeByFolding: %q%s does not fold: %v %s\n", p.text, m.text, err, r.String())
				}
				return "", 0, false
			}
			n++
			got, _ := constant.Int64Val(r.k)
			if got != at[p.want] {
				gotName := "?"
				for k, v := range at {
					if v == got {
						gotName = k
					}
				}
				return fmt.Sprintf("%q written with the accidental %q is classified as %s, want %s: a text that uses it is refused as a whole (or taken for the other notation)", p.text, m.text, gotName, p.want), n, true
			}
		}
	}
	return "", n, true
}
