package main

// TAB-DEGREE, compound intervals: the arithmetic that strips whole octaves in note.Degree.Semitone.

import (
	"fmt"
	"go/token"
	"go/types"

	"golang.org/x/tools/go/ssa"
)

// knownInt resolves v to an integer when it is a constant, a field of a constant package-level struct,
// a lookup of a constant struct key in a constant package-level table, or arithmetic on those.
func (c *Ctx) knownInt(v ssa.Value) (int64, bool) {
	v = stripConv(v)
	if k, ok := constInt(v); ok {
		return k, true
	}
	switch x := v.(type) {
	case *ssa.UnOp:
		if x.Op != token.MUL {
			return 0, false
		}
		if fa, ok := x.X.(*ssa.FieldAddr); ok {
			if g, ok := fa.X.(*ssa.Global); ok {
				name, _, _ := fieldName(fa)
				if sv := c.globalStruct(g); sv != nil {
					return asInt(sv.Fields[name])
				}
			}
		}
	case *ssa.Lookup:
		ld, ok := x.X.(*ssa.UnOp)
		if !ok {
			return 0, false
		}
		tab, ok := ld.X.(*ssa.Global)
		if !ok {
			return 0, false
		}
		kl, ok := x.Index.(*ssa.UnOp)
		if !ok {
			return 0, false
		}
		kg, ok := kl.X.(*ssa.Global)
		if !ok {
			return 0, false
		}
		key := c.globalStruct(kg)
		tv, _, err := c.evalVar(tab.Object().(*types.Var))
		if key == nil || err != nil {
			return 0, false
		}
		if m, ok := tv.(*MapV); ok {
			for _, e := range m.Entries {
				if e.K.vstr() == key.vstr() {
					return asInt(e.V)
				}
			}
		}
	case *ssa.BinOp:
		a, ok1 := c.knownInt(x.X)
		b, ok2 := c.knownInt(x.Y)
		if ok1 && ok2 {
			switch x.Op {
			case token.ADD:
				return a + b, true
			case token.SUB:
				return a - b, true
			case token.MUL:
				return a * b, true
			}
		}
	}
	return 0, false
}

func (c *Ctx) globalStruct(g *ssa.Global) *StructV {
	v, ok := g.Object().(*types.Var)
	if !ok {
		return nil
	}
	val, _, err := c.evalVar(v)
	if err != nil {
		return nil
	}
	sv, _ := val.(*StructV)
	return sv
}

// checkCompound verifies the closed form. Returns false when the function has no division at all (older recursive shape).
func (c *Ctx) checkCompound() bool {
	fn := c.fn("note", "Degree.Semitone")
	if fn == nil {
		c.missing("note.Degree.Semitone")
		return true
	}
	name := fname(fn)
	recv := fn.Params[0]
	isV := func(v ssa.Value) bool {
		n, base, ok := loadedField(stripConv(v))
		return ok && n == "Value" && c.derivesFromParam(base, recv)
	}
	isVminus1 := func(v ssa.Value) bool {
		b, ok := v.(*ssa.BinOp)
		if !ok || b.Op != token.SUB || !isV(b.X) {
			return false
		}
		k, ok := c.knownInt(b.Y)
		return ok && k == 1
	}
	var quo, rem *ssa.BinOp
	nq, nr := 0, 0
	allInstrs(fn, func(in ssa.Instruction) {
		if b, ok := in.(*ssa.BinOp); ok {
			switch b.Op {
			case token.QUO:
				quo = b
				nq++
			case token.REM:
				rem = b
				nr++
			}
		}
	})
	if nq == 0 && nr == 0 {
		return false
	}
	c.site(3)
	// octaves = (Value-1)/7
	okQ := nq == 1 && isVminus1(quo.X)
	span := int64(-1)
	if okQ {
		span, okQ = c.knownInt(quo.Y)
	}
	c.check(okQ && span == 7, name+"|compound|octaves", c.pos(fn.Pos()), name, "octaves = (number-1) / 7",
		fmt.Sprintf("the number of whole octaves of a compound interval is not (number-1)/7 (divisor %d, dividend number-1: %v): some compound intervals (e.g. the 14th, 15th, 21st) come out an octave off", span, nq == 1 && isVminus1(quo.X)))
	// simple = (Value-1)%7 + 1, stored as the reduced interval's Value together with the same quality
	okR := nr == 1 && isVminus1(rem.X)
	if okR {
		s, ok := c.knownInt(rem.Y)
		okR = ok && s == 7
	}
	stored := false
	var reduced *ssa.Alloc
	if okR {
		for _, ref := range *rem.Referrers() {
			add, ok := ref.(*ssa.BinOp)
			if !ok || add.Op != token.ADD {
				continue
			}
			if k, ok := c.knownInt(add.Y); !ok || k != 1 {
				continue
			}
			for _, r2 := range *add.Referrers() {
				if st, ok := r2.(*ssa.Store); ok {
					if n, base, ok := fieldName(st.Addr); ok && n == "Value" {
						if a, ok := base.(*ssa.Alloc); ok {
							stored, reduced = true, a
						}
					}
				}
			}
		}
	}
	sameQuality := false
	if reduced != nil {
		for _, ref := range *reduced.Referrers() {
			if fa, ok := ref.(*ssa.FieldAddr); ok {
				if n, _, _ := fieldName(fa); n == "Name" {
					for _, r2 := range *fa.Referrers() {
						if st, ok := r2.(*ssa.Store); ok {
							if ln, base, ok := loadedField(st.Val); ok && ln == "Name" && c.derivesFromParam(base, recv) {
								sameQuality = true
							}
						}
					}
				}
			}
		}
	}
	c.check(okR && stored && sameQuality, name+"|compound|simple", c.pos(fn.Pos()), name, "simple interval = (number-1) % 7 + 1 with the same quality",
		fmt.Sprintf("the simple interval of a compound one is not ((number-1) %% 7) + 1 with the same quality (remainder ok=%v, stored as the reduced number=%v, quality kept=%v)", okR, stored, sameQuality))
	// result = simple size + octaves * 12
	okSum := false
	if quo != nil {
		for _, r := range returnsOf(fn) {
			add, ok := r.Results[0].(*ssa.BinOp)
			if !ok || add.Op != token.ADD {
				continue
			}
			for _, pair := range [][2]ssa.Value{{add.X, add.Y}, {add.Y, add.X}} {
				ex, isEx := pair[0].(*ssa.Extract)
				mul, isMul := pair[1].(*ssa.BinOp)
				if !isEx || !isMul || mul.Op != token.MUL {
					continue
				}
				call, ok := ex.Tuple.(*ssa.Call)
				if !ok || ex.Index != 0 {
					continue
				}
				// the simple size is computed for the reduced interval
				fromReduced := false
				if ld, ok := call.Call.Args[0].(*ssa.UnOp); ok && reduced != nil && ld.X == ssa.Value(reduced) {
					fromReduced = true
				}
				for _, mp := range [][2]ssa.Value{{mul.X, mul.Y}, {mul.Y, mul.X}} {
					if stripConv(mp[0]) == ssa.Value(quo) {
						if k, ok := c.knownInt(mp[1]); ok && k == 12 && fromReduced {
							okSum = true
						}
					}
				}
			}
		}
	}
	c.check(okSum, name+"|compound|sum", c.pos(fn.Pos()), name, "size = size(simple interval) + octaves * 12", "the size of a compound interval is not the simple interval's size plus 12 per whole octave")
	// threshold: numbers up to 7 or 8 are looked up directly
	okT := false
	allInstrs(fn, func(in ssa.Instruction) {
		b, ok := in.(*ssa.BinOp)
		if !ok || !isV(b.X) {
			return
		}
		k, ok := c.knownInt(b.Y)
		if !ok {
			return
		}
		switch b.Op {
		case token.LEQ:
			okT = okT || k == 7 || k == 8
		case token.LSS:
			okT = okT || k == 8 || k == 9
		case token.GTR:
			okT = okT || k == 7 || k == 8
		case token.GEQ:
			okT = okT || k == 8 || k == 9
		}
	})
	c.check(okT, name+"|compound|threshold", c.pos(fn.Pos()), name, "numbers up to the octave are looked up directly", "the boundary between simple and compound intervals is not at 7/8: some numbers are reduced that have table rows of their own, or the other way round")
	return true
}
