package main

// Conditional constant propagation over go/ssa, one function at a time, with
// chosen parameters bound to constants. A branch whose condition does not fold
// makes the whole result "unknown" (⊤); nothing is ever guessed. Library
// callees are never interpreted: they are replaced by transfer functions
// written from their documentation (see libTransfer).

import (
	"fmt"
	"go/constant"
	"go/token"
	"go/types"
	"math"
	"math/big"
	"math/bits"
	"os"
	"regexp"
	"sort"
	"strconv"
	"strings"
	"unicode"

	"golang.org/x/tools/go/ssa"
)

type fval struct {
	k  constant.Value // non-nil: known basic constant
	fn *ssa.Function  // non-nil: known function value
	t  types.Type
	// tuple results
	tuple []fval
	isNil bool
	// struct value with (some) known fields; absent fields are unknown
	fields map[string]fval
	// address of (a field path inside) a local
	addr *faddr
	// a composite value read from an immutable package-level table (consteval value), or a pointer to one
	cv    Val
	cvptr Val
	// iterator over an immutable map table (range over a map); reverse visits the entries last to first
	iter *foldIter
	// values captured by a closure (fn is the closure's function), and the memory of the frame that made it (captured
	// variables live there and stay shared with it, also after that frame has returned)
	bind []fval
	heap map[*ssa.Alloc]fval
	// a slice over a cell of the fold's memory
	sl *fslice
	// an iterator made by the standard library over known elements (maps.Keys, maps.Values, slices.Values ...): what it
	// yields, in order (one or two values per step)
	seq *fseq
	// a function value provided by the folder itself (the yield handed to an iterator by maps.Collect and friends)
	native func(args []fval) (fval, bool)
	// a compiled regular expression (regexp.MustCompile of a constant pattern)
	re *regexp.Regexp
	// a non-nil error value; errID distinguishes values made by different errors.New / failing library calls (0 = unknown identity)
	nonNil bool
	errID  int
}

// fslice: a slice whose elements live in a cell of the fold's memory (made by make or by slicing a local array): elements
// may be pointers into that memory and may be written through IndexAddr.
type fslice struct {
	base *ssa.Alloc
	path []string
	off  int
	n    int
}

type fseq struct {
	items [][]fval
}

type foldIter struct {
	entries []KV
	pos     int
}

type faddr struct {
	base *ssa.Alloc
	path []string
}

func (v fval) known() bool {
	return v.seq != nil || v.sl != nil || v.native != nil || v.re != nil || v.k != nil || v.fn != nil || v.isNil || v.tuple != nil || v.fields != nil || v.addr != nil || v.cv != nil || v.cvptr != nil || v.iter != nil || v.nonNil
}

// structFval builds a struct value from a nested path map, e.g. {"Rat.Num": 0}.
func structFval(paths map[string]fval) fval {
	root := fval{fields: map[string]fval{}}
	for p, v := range paths {
		parts := strings.Split(p, ".")
		cur := root
		for i, part := range parts {
			if i == len(parts)-1 {
				cur.fields[part] = v
				break
			}
			nx, ok := cur.fields[part]
			if !ok || nx.fields == nil {
				nx = fval{fields: map[string]fval{}}
				cur.fields[part] = nx
			}
			cur = nx
		}
	}
	return root
}
func (v fval) String() string {
	switch {
	case v.k != nil:
		return v.k.ExactString()
	case v.fn != nil:
		return "func " + fname(unbound(v.fn))
	case v.isNil:
		return "nil"
	case v.tuple != nil:
		var ss []string
		for _, x := range v.tuple {
			ss = append(ss, x.String())
		}
		return "(" + strings.Join(ss, ", ") + ")"
	case v.fields != nil:
		var ks []string
		for k := range v.fields {
			ks = append(ks, k)
		}
		sort.Strings(ks)
		var ss []string
		for _, k := range ks {
			ss = append(ss, k+":"+v.fields[k].String())
		}
		return "{" + strings.Join(ss, ",") + "}"
	case v.cv != nil:
		return v.cv.vstr()
	case v.cvptr != nil:
		return "&" + v.cvptr.vstr()
	case v.addr != nil:
		return "&cell" + strings.Join(v.addr.path, ".")
	case v.sl != nil:
		return fmt.Sprintf("slice[%d:%d]", v.sl.off, v.sl.off+v.sl.n)
	case v.nonNil:
		return fmt.Sprintf("error#%d", v.errID)
	case v.re != nil:
		return "regexp " + v.re.String()
	}
	return "⊤"
}

var top = fval{}

// foldDebugCalls: report every callee that does not fold (CRDCHECK_DEBUG=calls)
var foldDebugCalls = os.Getenv("CRDCHECK_DEBUG") == "calls"

type folder struct {
	c     *Ctx
	depth int
	steps int
	trace []string
	// hook, when set, sees every instruction of the outermost function before it is
	// evaluated, with a lookup for operand values; returning true stops the fold.
	hook func(in ssa.Instruction, val func(ssa.Value) fval) bool
	// invoke, when set, gives the result of interface method calls (at any depth); ok=false leaves the result unknown.
	invoke func(call *ssa.Call, args []fval) (fval, bool)
	// invokeRecv, when set, is asked first for interface method calls, with the receiver's value
	invokeRecv func(call *ssa.Call, recv fval, args []fval) (fval, bool)
	// lib, when set, is asked first for the result of a library call (a stand-in for the environment: a flag's value)
	lib func(fn *ssa.Function, args []fval) (fval, bool)
	// dyn, when set, stands in for calls of unknown function values (callbacks), at any depth
	dyn func(call *ssa.Call, args []fval) (fval, bool)
	// skipInits: calls of package init functions are no-ops (the importing package's init is being folded)
	skipInits bool
	// globalStore, when set, receives the stores into package-level variables (a package initialiser is being folded)
	globalStore map[*ssa.Global]fval
	// heap: the memory of the outermost folded call (pointer results point into it; see deref)
	heap map[*ssa.Alloc]fval
	// cellType: the types of the cells allocations were given
	cellType map[*ssa.Alloc]types.Type
	// incomplete: calls that were not followed to their end although they may have had effects on the fold's memory (a
	// callee that does not fold, a library function without a transfer that is handed a pointer). A fold that reads its
	// answer out of memory afterwards must not claim anything when this is not empty.
	incomplete []string
	// failedCalls: every call inside the fold that was not followed to its end (whatever it was handed)
	failedCalls []string
	// panicked: an instruction that panics for the values at hand was met (the fold ends there)
	panicked string
	// maxDepth overrides the default bound on the depth of followed calls
	maxDepth int
	// maxSteps overrides the default budget of basic blocks visited
	maxSteps int
	// reverseMaps makes ranges over map tables visit the entries in reverse literal order (Go's order is unspecified:
	// a caller that folds once with and once without it and gets the same answer has shown order independence for that input)
	reverseMaps bool
	sawMapRange bool
	// maps made during the fold (mutable); poisoned ones received a key or value that is not known
	freshMaps map[*MapV]bool
	poisoned  map[*MapV]bool
}

var errStopped = fmt.Errorf("stopped by hook")

func (c *Ctx) newFolder() *folder { return &folder{c: c} }

// foldCall folds fn with the given argument values (⊤ allowed). free vars are ⊤.
func (f *folder) foldCall(fn *ssa.Function, args []fval) (fval, error) {
	return f.foldCallEnv(fn, args, nil, nil)
}

// foldMethod folds a method for a receiver given as a struct value, whether the method takes it by value or by pointer
// (then the struct is put into a cell of the fold's memory and the method gets the cell's address).
func (f *folder) foldMethod(fn *ssa.Function, recv fval, rest []fval) (fval, error) {
	if len(fn.Params) > 0 && recv.fields != nil {
		if _, isPtr := fn.Params[0].Type().Underlying().(*types.Pointer); isPtr {
			cell := new(ssa.Alloc)
			return f.foldCallEnv(fn, append([]fval{{addr: &faddr{base: cell}}}, rest...), nil, map[*ssa.Alloc]fval{cell: recv})
		}
	}
	return f.foldCallEnv(fn, append([]fval{recv}, rest...), nil, nil)
}

// foldCallEnv: as foldCall, for a closure: bind gives its captured values and mem is the memory of the function that
// created it (captured variables are shared with it).
// stdFollowable: functions of the standard library's generic helper packages whose bodies are ordinary Go the folder can run.
func stdFollowable(fn *ssa.Function) bool {
	o := fn
	if fn.Origin() != nil {
		o = fn.Origin()
	}
	if o.Pkg == nil || o.Pkg.Pkg == nil || len(fn.Blocks) == 0 {
		return false
	}
	switch o.Pkg.Pkg.Path() {
	case "maps", "slices", "cmp":
		return true
	}
	return false
}

func (f *folder) foldCallEnv(fn *ssa.Function, args []fval, bind []fval, shared map[*ssa.Alloc]fval) (fval, error) {
	if fn == nil {
		return top, fmt.Errorf("nil function")
	}
	if !f.c.isRepoFunc(fn) {
		if f.lib != nil {
			if r, ok := f.lib(fn, args); ok {
				return r, nil
			}
		}
		if r, ok, err := f.iterTransfer(fn, args); ok {
			return r, err
		}
		r, err := libTransfer(fn, args)
		if err == nil || !stdFollowable(fn) {
			return r, err
		}
		// a small generic helper of the standard library (maps.Copy, slices.Concat, cmp.Or ...): plain Go, folded like the repository's own code
	}
	if len(fn.Blocks) == 0 {
		return top, fmt.Errorf("%s has no body", fname(fn))
	}
	f.depth++
	defer func() { f.depth-- }()
	if f.depth > max(6, f.maxDepth) {
		return top, fmt.Errorf("call depth exceeded at %s", fname(fn))
	}
	env := map[ssa.Value]fval{}
	mem := map[*ssa.Alloc]fval{}
	if shared != nil {
		mem = shared
	}
	if f.depth == 1 {
		f.heap = mem
	}
	for i, p := range fn.Params {
		if i < len(args) {
			env[p] = args[i]
		}
	}
	for i, fv := range fn.FreeVars {
		if i < len(bind) {
			env[fv] = bind[i]
		}
	}
	var prev *ssa.BasicBlock
	b := fn.Blocks[0]
	for {
		f.steps++
		if f.steps > max(4000, f.maxSteps) {
			return top, fmt.Errorf("step budget exceeded in %s (loop?)", fname(fn))
		}
		// phis first, simultaneously
		phiVals := map[ssa.Value]fval{}
		for _, in := range b.Instrs {
			p, ok := in.(*ssa.Phi)
			if !ok {
				break
			}
			idx := -1
			for i, pb := range b.Preds {
				if pb == prev {
					idx = i
				}
			}
			if idx < 0 {
				phiVals[p] = top
			} else {
				phiVals[p] = f.val(env, p.Edges[idx])
			}
		}
		for k, v := range phiVals {
			env[k] = v
		}
		for _, in := range b.Instrs {
			if f.hook != nil && f.depth == 1 {
				if _, isPhi := in.(*ssa.Phi); !isPhi {
					if f.hook(in, func(v ssa.Value) fval { return f.val(env, v) }) {
						return top, errStopped
					}
				}
			}
			switch x := in.(type) {
			case *ssa.Phi:
				continue
			case *ssa.If:
				cv := f.val(env, x.Cond)
				if cv.k == nil || cv.k.Kind() != constant.Bool {
					detail := ""
					if foldDebugCalls {
						if bo, ok := x.Cond.(*ssa.BinOp); ok {
							detail = fmt.Sprintf(" [%s %s %s]", f.val(env, bo.X).String(), bo.Op, f.val(env, bo.Y).String())
						}
					}
					return top, fmt.Errorf("branch condition does not fold in %s (block %d)%s", fname(fn), b.Index, detail)
				}
				prev = b
				if constant.BoolVal(cv.k) {
					b = b.Succs[0]
				} else {
					b = b.Succs[1]
				}
				goto next
			case *ssa.Jump:
				prev = b
				b = b.Succs[0]
				goto next
			case *ssa.Return:
				switch len(x.Results) {
				case 0:
					return fval{tuple: []fval{}}, nil
				case 1:
					return f.val(env, x.Results[0]), nil
				default:
					var rs []fval
					for _, r := range x.Results {
						rs = append(rs, f.val(env, r))
					}
					return fval{tuple: rs}, nil
				}
			case *ssa.Panic:
				return top, fmt.Errorf("panics")
			default:
				f.evalInstr(env, mem, in)
				if f.panicked != "" {
					return top, fmt.Errorf("panics: %s", f.panicked)
				}
			}
		}
		return top, fmt.Errorf("fell off block %d of %s", b.Index, fname(fn))
	next:
	}
}

// evalInstr evaluates one non-terminator, non-phi instruction into env / mem.
func (f *folder) evalInstr(env map[ssa.Value]fval, mem map[*ssa.Alloc]fval, in ssa.Instruction) {
	switch x := in.(type) {
	case *ssa.BinOp:
		env[x] = foldBinOp(x.Op, f.val(env, x.X), f.val(env, x.Y), x.Type())
	case *ssa.Alloc:
		// every execution of an allocation makes an object of its own (one memory serves all frames of a fold, and what
		// earlier rounds of a loop or earlier calls made may still be referenced)
		cell := new(ssa.Alloc)
		if f.cellType == nil {
			f.cellType = map[*ssa.Alloc]types.Type{}
		}
		f.cellType[cell] = x.Type()
		env[x] = fval{addr: &faddr{base: cell}}
		// a fresh variable holds the zero value of its type
		if pt, ok := x.Type().Underlying().(*types.Pointer); ok {
			if z := zeroFval(pt.Elem()); z.known() {
				mem[cell] = z
			} else {
				delete(mem, cell)
			}
		}
	case *ssa.Store:
		if g, ok := x.Addr.(*ssa.Global); ok && f.globalStore != nil {
			f.globalStore[g] = f.val(env, x.Val)
			return
		}
		if a := f.val(env, x.Addr); a.addr != nil && len(a.addr.path) == 0 {
			mem[a.addr.base] = f.val(env, x.Val)
		} else if a.addr != nil {
			// store into a field / array element of the local
			mem[a.addr.base] = setFvalPath(mem[a.addr.base], a.addr.path, f.val(env, x.Val))
		}
	case *ssa.FieldAddr:
		if a := f.val(env, x.X); a.cvptr != nil {
			// a field of a known immutable struct handed in by pointer
			if sv, ok := a.cvptr.(*StructV); ok {
				name, _, _ := fieldName(x)
				if fv, ok := sv.Fields[name]; ok {
					env[x] = fval{cvptr: fv}
					return
				}
			}
			env[x] = top
			return
		}
		if a := f.val(env, x.X); a.addr != nil {
			name, _, _ := fieldName(x)
			env[x] = fval{addr: &faddr{base: a.addr.base, path: append(append([]string{}, a.addr.path...), name)}}
		} else {
			env[x] = top
		}
	case *ssa.Field:
		if sv := f.val(env, x.X); sv.fields != nil {
			name, _, _ := fieldName(x)
			if fv, ok := sv.fields[name]; ok {
				env[x] = fv
			} else {
				env[x] = top
			}
		} else {
			env[x] = top
		}
	case *ssa.UnOp:
		if x.Op == token.MUL {
			if g, ok := x.X.(*ssa.Global); ok {
				if f.globalStore != nil {
					if v, stored := f.globalStore[g]; stored {
						env[x] = v
						return
					}
					if g.Name() == "init$guard" {
						env[x] = fval{k: constant.MakeBool(false), t: types.Typ[types.Bool]}
						return
					}
				}
				env[x] = f.c.globalTable(g)
				return
			}
			if a := f.val(env, x.X); a.cvptr != nil {
				env[x] = fromVal(a.cvptr)
				return
			}
			if a := f.val(env, x.X); a.addr != nil {
				cur, ok := mem[a.addr.base]
				for _, part := range a.addr.path {
					if !ok || cur.fields == nil {
						ok = false
						break
					}
					cur, ok = cur.fields[part]
				}
				if ok {
					env[x] = cur
				} else {
					env[x] = top
				}
				return
			}
		}
		env[x] = foldUnOp(x, f.val(env, x.X))
	case *ssa.Convert:
		env[x] = foldConvert(f.val(env, x.X), x.Type())
	case *ssa.ChangeType:
		v := f.val(env, x.X)
		v.t = x.Type()
		env[x] = v
	case *ssa.MakeInterface:
		// a value boxed into an interface keeps its value; its static type is remembered as the dynamic type
		v := f.val(env, x.X)
		if v.k != nil {
			env[x] = v
		} else if v.addr != nil || v.isNil && false {
			v.t = x.X.Type()
			env[x] = v
		} else {
			env[x] = top
		}
	case *ssa.ChangeInterface:
		env[x] = f.val(env, x.X)
	case *ssa.TypeAssert:
		v := f.val(env, x.X)
		boolT := types.Typ[types.Bool]
		dyn := f.dynType(v)
		switch {
		case v.isNil && x.CommaOk:
			env[x] = fval{tuple: []fval{zeroFval(x.AssertedType), {k: constant.MakeBool(false), t: boolT}}}
		case dyn != nil:
			holds := false
			if it, isIface := x.AssertedType.Underlying().(*types.Interface); isIface {
				holds = types.Implements(dyn, it)
			} else {
				holds = types.Identical(dyn, x.AssertedType)
			}
			switch {
			case x.CommaOk && holds:
				env[x] = fval{tuple: []fval{v, {k: constant.MakeBool(true), t: boolT}}}
			case x.CommaOk:
				env[x] = fval{tuple: []fval{zeroFval(x.AssertedType), {k: constant.MakeBool(false), t: boolT}}}
			case holds:
				env[x] = v
			default:
				env[x] = top
			}
		default:
			env[x] = top
		}
	case *ssa.MakeSlice:
		n, okN := int64(-1), false
		if lv := f.val(env, x.Len); lv.k != nil && lv.k.Kind() == constant.Int {
			n, okN = constant.Int64Val(lv.k)
		}
		st, isSlice := x.Type().Underlying().(*types.Slice)
		// a capacity that is known and impossible (negative, below the length, or astronomically large - an unsigned
		// subtraction that wrapped): makeslice panics
		if cv := f.val(env, x.Cap); cv.k != nil && cv.k.Kind() == constant.Int && okN {
			if cp, exact := constant.Int64Val(cv.k); !exact || cp < n || cp > 1<<40 {
				f.panicked = "makeslice: cap out of range (" + cv.k.ExactString() + ")"
			}
		}
		if okN && (n < 0 || n > 1<<40) {
			f.panicked = "makeslice: len out of range"
		}
		if !okN || !isSlice || n < 0 || n > 4096 {
			env[x] = top
			return
		}
		cell := new(ssa.Alloc)
		if f.cellType == nil {
			f.cellType = map[*ssa.Alloc]types.Type{}
		}
		f.cellType[cell] = types.NewPointer(types.NewArray(st.Elem(), n))
		fs := map[string]fval{}
		for i := int64(0); i < n; i++ {
			fs[fmt.Sprintf("#%d", i)] = zeroFval(st.Elem())
		}
		mem[cell] = fval{fields: fs}
		env[x] = fval{sl: &fslice{base: cell, n: int(n)}, t: x.Type()}
	case *ssa.MakeClosure:
		if g, ok := x.Fn.(*ssa.Function); ok {
			var bs []fval
			for _, b := range x.Bindings {
				bs = append(bs, f.val(env, b))
			}
			env[x] = fval{fn: g, t: x.Type(), bind: bs, heap: mem}
		}
	case *ssa.Call:
		if bi, ok := x.Call.Value.(*ssa.Builtin); ok && (bi.Name() == "max" || bi.Name() == "min") && len(x.Call.Args) >= 1 {
			best := f.val(env, x.Call.Args[0])
			for _, a := range x.Call.Args[1:] {
				v := f.val(env, a)
				if best.k == nil || v.k == nil || best.k.Kind() != constant.Int || v.k.Kind() != constant.Int {
					best = top
					break
				}
				if (bi.Name() == "max" && constant.Compare(v.k, token.GTR, best.k)) || (bi.Name() == "min" && constant.Compare(v.k, token.LSS, best.k)) {
					best = v
				}
			}
			if best.k != nil && best.k.Kind() == constant.Int {
				best.t = x.Type()
				env[x] = best
			} else {
				env[x] = top
			}
			return
		}
		if bi, ok := x.Call.Value.(*ssa.Builtin); ok && bi.Name() == "ssa:wrapnilchk" && len(x.Call.Args) >= 1 {
			// the nil check of a method wrapper hands its first argument on
			env[x] = f.val(env, x.Call.Args[0])
			return
		}
		if bi, ok := x.Call.Value.(*ssa.Builtin); ok && bi.Name() == "append" && len(x.Call.Args) == 2 {
			a, b := f.val(env, x.Call.Args[0]), f.val(env, x.Call.Args[1])
			la, okA := a.cv.(*ListV)
			lb, okB := b.cv.(*ListV)
			if a.isNil {
				la, okA = &ListV{T: x.Type()}, true
			}
			if okA && okB {
				nl := &ListV{T: x.Type()}
				nl.Elems = append(append(nl.Elems, la.Elems...), lb.Elems...)
				env[x] = fval{cv: nl, t: x.Type()}
				return
			}
			// slices over the fold's memory (elements may be pointers): a fresh cell with the elements of both
			ea, ok1 := f.sliceElems(a, mem)
			eb, ok2 := f.sliceElems(b, mem)
			if b.isNil {
				eb, ok2 = nil, true
			}
			if ok1 && ok2 {
				cell := new(ssa.Alloc)
				fs := map[string]fval{}
				for i, e := range append(append([]fval{}, ea...), eb...) {
					fs[fmt.Sprintf("#%d", i)] = e
				}
				mem[cell] = fval{fields: fs}
				env[x] = fval{sl: &fslice{base: cell, n: len(ea) + len(eb)}, t: x.Type()}
			} else {
				env[x] = top
			}
			return
		}
		if bi, ok := x.Call.Value.(*ssa.Builtin); ok && bi.Name() == "len" && len(x.Call.Args) == 1 {
			a := f.val(env, x.Call.Args[0])
			if a.isNil {
				// a nil slice or map has no elements
				env[x] = fval{k: constant.MakeInt64(0), t: x.Type()}
				return
			}
			if a.sl != nil {
				env[x] = fval{k: constant.MakeInt64(int64(a.sl.n)), t: x.Type()}
				return
			}
			switch cv := a.cv.(type) {
			case *ListV:
				env[x] = fval{k: constant.MakeInt64(int64(len(cv.Elems))), t: x.Type()}
				return
			case *MapV:
				env[x] = fval{k: constant.MakeInt64(int64(len(cv.Entries))), t: x.Type()}
				return
			}
			if a.k != nil && a.k.Kind() == constant.String {
				env[x] = fval{k: constant.MakeInt64(int64(len(constant.StringVal(a.k)))), t: x.Type()}
				return
			}
			env[x] = top
			return
		}
		if x.Call.IsInvoke() && f.invokeRecv != nil {
			var as []fval
			for _, a := range x.Call.Args {
				as = append(as, f.val(env, a))
			}
			if r, ok := f.invokeRecv(x, f.val(env, x.Call.Value), as); ok {
				env[x] = r
				return
			}
		}
		if x.Call.IsInvoke() {
			// the receiver's dynamic type is known (a pointer into the fold's memory): the method that will run is known
			recv := f.val(env, x.Call.Value)
			if dyn := f.dynType(recv); dyn != nil {
				if sel := f.c.Prog.MethodSets.MethodSet(dyn).Lookup(x.Call.Method.Pkg(), x.Call.Method.Name()); sel != nil {
					if m := f.c.Prog.MethodValue(sel); m != nil && len(m.Blocks) > 0 {
						as := []fval{recv}
						for _, a := range x.Call.Args {
							as = append(as, f.val(env, a))
						}
						if foldDebugCalls && os.Getenv("CRDCHECK_DUMPWRAP") != "" {
							m.WriteTo(os.Stderr)
							fmt.Fprintf(os.Stderr, "  recv=%s cell=%s\n", recv.String(), mem[recv.addr.base].String())
						}
						if r, err := f.foldCallEnv(m, as, nil, mem); err == nil {
							env[x] = r
							return
						} else {
							if foldDebugCalls {
								fmt.Fprintf(os.Stderr, "  fold: invoke of %s fails: %v\n", fname(m), err)
							}
							f.incomplete = append(f.incomplete, fname(m)+": "+err.Error())
							f.failedCalls = append(f.failedCalls, fname(m)+": "+err.Error())
						}
						env[x] = top
						return
					}
				}
			}
		}
		if x.Call.IsInvoke() && f.invoke != nil {
			var as []fval
			for _, a := range x.Call.Args {
				as = append(as, f.val(env, a))
			}
			if r, ok := f.invoke(x, as); ok {
				env[x] = r
			} else {
				env[x] = top
			}
			return
		}
		callee := staticCallee(&x.Call)
		if f.skipInits && callee != nil && callee.Name() == "init" && callee.Synthetic != "" && len(x.Call.Args) == 0 {
			return
		}
		var bind []fval
		var heap map[*ssa.Alloc]fval
		if !x.Call.IsInvoke() {
			// a closure (called directly or through a variable): its captured values come along
			if fv := f.val(env, x.Call.Value); fv.fn != nil {
				if callee == nil {
					callee = fv.fn
				}
				if callee == fv.fn {
					bind, heap = fv.bind, fv.heap
				}
			}
		}
		if callee == nil && !x.Call.IsInvoke() {
			if fv := f.val(env, x.Call.Value); fv.seq != nil && len(x.Call.Args) == 1 {
				// ranging over a library iterator: the loop body (yield) is called for each element until it answers false
				yield := f.val(env, x.Call.Args[0])
				for _, it := range fv.seq.items {
					var r fval
					var err error
					switch {
					case yield.native != nil:
						var ok bool
						r, ok = yield.native(it)
						if !ok {
							err = fmt.Errorf("yield")
						}
					case yield.fn != nil:
						shared := mem
						if yield.bind != nil && yield.heap != nil {
							shared = yield.heap
						}
						r, err = f.foldCallEnv(yield.fn, it, yield.bind, shared)
					default:
						err = fmt.Errorf("unknown yield")
					}
					if err != nil || r.k == nil || r.k.Kind() != constant.Bool {
						env[x] = top
						return
					}
					if !constant.BoolVal(r.k) {
						break
					}
				}
				env[x] = fval{tuple: []fval{}}
				return
			}
			if fv := f.val(env, x.Call.Value); fv.native != nil {
				var as []fval
				for _, a := range x.Call.Args {
					as = append(as, f.val(env, a))
				}
				if r, ok := fv.native(as); ok {
					env[x] = r
				} else {
					env[x] = top
				}
				return
			}
		}
		if callee == nil {
			// a call of a function value nothing is known about (a callback parameter): the caller of the fold may stand in for it
			if f.dyn != nil && !x.Call.IsInvoke() {
				var as []fval
				for _, a := range x.Call.Args {
					as = append(as, f.val(env, a))
				}
				if r, ok := f.dyn(x, as); ok {
					env[x] = r
					return
				}
			}
			f.incomplete = append(f.incomplete, "a call of an unknown function value in "+fname(x.Parent()))
			f.failedCalls = append(f.failedCalls, "a call of an unknown function value in "+fname(x.Parent()))
			env[x] = top
			return
		}
		var as []fval
		var ptrArgs []*ssa.Alloc
		for _, a := range x.Call.Args {
			av := f.val(env, a)
			as = append(as, av)
			if av.addr != nil {
				ptrArgs = append(ptrArgs, av.addr.base)
			}
		}
		// bound-method thunk: free var is the receiver (unknown) — methods here never depend on receiver state we track
		target := callee
		if strings.HasSuffix(callee.Name(), "$bound") {
			target = unbound(callee)
			recv := top
			if len(bind) == 1 {
				recv = bind[0]
			}
			as = append([]fval{recv}, as...)
			bind = nil
		}
		// the callee works on the same memory: what it is handed by pointer it can read and write
		shared := mem
		if bind != nil && heap != nil {
			shared = heap
		}
		r, err := f.foldCallEnv(target, as, bind, shared)
		if (err != nil || !(f.c.isRepoFunc(target) || stdFollowable(target))) && !diagnosticCallee(fname(target)) && !strings.HasPrefix(fname(target), "fmt.Sprint") && fname(target) != "encoding/json.Marshal" {
			// not followed to its end (or a library function): whatever it was handed by pointer is unknown now
			for _, b := range ptrArgs {
				delete(mem, b)
			}
		}
		if err != nil {
			if foldDebugCalls {
				fmt.Fprintf(os.Stderr, "  fold: call of %s fails: %v\n", fname(target), err)
			}
			// what the callee would have done to the memory is not known
			tn := fname(target)
			if !diagnosticCallee(tn) && !strings.HasPrefix(tn, "fmt.Sprint") && tn != "fmt.Errorf" {
				f.failedCalls = append(f.failedCalls, tn+": "+err.Error())
			}
			hasPtr := len(ptrArgs) > 0 || bind != nil
			for _, a := range as {
				if a.sl != nil || a.fn != nil {
					hasPtr = true
				}
			}
			pure := diagnosticCallee(tn) || strings.HasPrefix(tn, "fmt.Sprint") || tn == "fmt.Errorf" || tn == "encoding/json.Marshal" || strings.HasPrefix(tn, "strings.") || strings.HasPrefix(tn, "strconv.") || strings.HasPrefix(tn, "errors.") || strings.HasPrefix(tn, "math.") || strings.HasPrefix(tn, "unicode.")
			for _, a := range as {
				if a.cv != nil || a.addr != nil || a.cvptr != nil {
					hasPtr = true
				}
				for _, fv := range a.fields {
					if fv.cv != nil || fv.addr != nil || fv.sl != nil || fv.fn != nil {
						hasPtr = true
					}
				}
			}
			if hasPtr && !pure {
				f.incomplete = append(f.incomplete, tn+": "+err.Error())
			}
			env[x] = top
		} else {
			env[x] = r
		}
	case *ssa.MakeMap:
		mv := &MapV{T: x.Type()}
		if f.freshMaps == nil {
			f.freshMaps, f.poisoned = map[*MapV]bool{}, map[*MapV]bool{}
		}
		f.freshMaps[mv] = true
		env[x] = fval{cv: mv, t: x.Type()}
	case *ssa.MapUpdate:
		mv, ok := f.val(env, x.Map).cv.(*MapV)
		if !ok || !f.freshMaps[mv] {
			return
		}
		mt, isMap := x.Map.Type().Underlying().(*types.Map)
		if !isMap {
			f.poisoned[mv] = true
			return
		}
		kv, ok1 := toVal(f.val(env, x.Key), mt.Key(), f.c)
		vv, ok2 := toVal(f.val(env, x.Value), mt.Elem(), f.c)
		if ok2 && f.holdsPoisoned(vv, 0) {
			ok2 = false
		}
		if !ok1 || !ok2 {
			if os.Getenv("CRDCHECK_DEBUG") != "" {
				fmt.Fprintf(os.Stderr, "fold: map poisoned in %s: key ok=%v %s, value ok=%v %s\n", fname(x.Parent()), ok1, f.val(env, x.Key).String(), ok2, f.val(env, x.Value).String())
			}
			f.poisoned[mv] = true
			return
		}
		replaced := false
		for i, e := range mv.Entries {
			if e.K.vstr() == kv.vstr() {
				mv.Entries[i].V = vv
				replaced = true
			}
		}
		if !replaced {
			mv.Entries = append(mv.Entries, KV{K: kv, V: vv})
		}
	case *ssa.Range:
		if rv := f.val(env, x.X); rv.isNil {
			// ranging over a nil map: no rounds
			env[x] = fval{iter: &foldIter{}}
			return
		}
		if mv, ok := f.val(env, x.X).cv.(*MapV); ok && !f.poisoned[mv] {
			es := append([]KV{}, mv.Entries...)
			if f.reverseMaps {
				for i, j := 0, len(es)-1; i < j; i, j = i+1, j-1 {
					es[i], es[j] = es[j], es[i]
				}
			}
			f.sawMapRange = true
			env[x] = fval{iter: &foldIter{entries: es}}
		} else {
			env[x] = top
		}
	case *ssa.Next:
		it := f.val(env, x.Iter).iter
		if it == nil || x.IsString {
			env[x] = top
			return
		}
		boolT := types.Typ[types.Bool]
		if it.pos >= len(it.entries) {
			env[x] = fval{tuple: []fval{{k: constant.MakeBool(false), t: boolT}, top, top}}
			return
		}
		e := it.entries[it.pos]
		it.pos++
		env[x] = fval{tuple: []fval{{k: constant.MakeBool(true), t: boolT}, fromVal(e.K), fromVal(e.V)}}
	case *ssa.Lookup:
		if mv, ok := f.val(env, x.X).cv.(*MapV); ok && f.poisoned[mv] {
			env[x] = top
			return
		}
		// a byte of a known string
		if sv, iv := f.val(env, x.X), f.val(env, x.Index); !x.CommaOk && sv.k != nil && sv.k.Kind() == constant.String && iv.k != nil && iv.k.Kind() == constant.Int {
			str := constant.StringVal(sv.k)
			if i, ok := constant.Int64Val(iv.k); ok && 0 <= i && i < int64(len(str)) {
				env[x] = fval{k: constant.MakeInt64(int64(str[i])), t: x.Type()}
				return
			}
			env[x] = top
			return
		}
		env[x] = foldLookup(x, f.val(env, x.X), f.val(env, x.Index))
	case *ssa.Slice:
		// a slice of a slice that lives in the fold's memory
		if sv := f.val(env, x.X); sv.sl != nil && x.Max == nil {
			lo, hi := 0, sv.sl.n
			okB := true
			if x.Low != nil {
				if v := f.val(env, x.Low); v.k != nil && v.k.Kind() == constant.Int {
					i, _ := constant.Int64Val(v.k)
					lo = int(i)
				} else {
					okB = false
				}
			}
			if x.High != nil {
				if v := f.val(env, x.High); v.k != nil && v.k.Kind() == constant.Int {
					i, _ := constant.Int64Val(v.k)
					hi = int(i)
				} else {
					okB = false
				}
			}
			if okB && 0 <= lo && lo <= hi && hi <= sv.sl.n {
				env[x] = fval{sl: &fslice{base: sv.sl.base, path: sv.sl.path, off: sv.sl.off + lo, n: hi - lo}, t: x.Type()}
			} else {
				env[x] = top
			}
			return
		}
		// a substring of a known string with known bounds
		if sv := f.val(env, x.X); sv.k != nil && sv.k.Kind() == constant.String && x.Max == nil {
			str := constant.StringVal(sv.k)
			lo, hi := int64(0), int64(len(str))
			okB := true
			if x.Low != nil {
				if v := f.val(env, x.Low); v.k != nil && v.k.Kind() == constant.Int {
					lo, _ = constant.Int64Val(v.k)
				} else {
					okB = false
				}
			}
			if x.High != nil {
				if v := f.val(env, x.High); v.k != nil && v.k.Kind() == constant.Int {
					hi, _ = constant.Int64Val(v.k)
				} else {
					okB = false
				}
			}
			if okB && 0 <= lo && lo <= hi && hi <= int64(len(str)) {
				env[x] = fval{k: constant.MakeString(str[lo:hi]), t: x.Type()}
			} else {
				env[x] = top
			}
			return
		}
		// a sub-slice of an immutable list (or of an immutable package-level array, through its address) with constant bounds
		lsrc, lok := f.val(env, x.X).cv.(*ListV)
		if !lok {
			lsrc, lok = f.val(env, x.X).cvptr.(*ListV)
		}
		if l, ok := lsrc, lok; ok && x.Max == nil {
			lo, hi := int64(0), int64(len(l.Elems))
			okB := true
			if x.Low != nil {
				if v := f.val(env, x.Low); v.k != nil && v.k.Kind() == constant.Int {
					lo, _ = constant.Int64Val(v.k)
				} else {
					okB = false
				}
			}
			if x.High != nil {
				if v := f.val(env, x.High); v.k != nil && v.k.Kind() == constant.Int {
					hi, _ = constant.Int64Val(v.k)
				} else {
					okB = false
				}
			}
			if okB && 0 <= lo && lo <= hi && hi <= int64(len(l.Elems)) {
				env[x] = fval{cv: &ListV{T: x.Type(), Elems: l.Elems[lo:hi]}, t: x.Type()}
				return
			}
			env[x] = top
			return
		}
		// the whole of a local array whose elements are all known constants (a variadic argument list): an immutable list
		if a := f.val(env, x.X); a.addr != nil && len(a.addr.path) == 0 && x.Low == nil && x.High == nil && x.Max == nil {
			bt := f.cellType[a.addr.base]
			if bt == nil && a.addr.base.Block() != nil {
				bt = a.addr.base.Type()
			}
			if bt == nil {
				env[x] = top
				return
			}
			if pt, ok := bt.Underlying().(*types.Pointer); ok {
				if at, ok := pt.Elem().Underlying().(*types.Array); ok {
					cur := mem[a.addr.base]
					lv := &ListV{T: x.Type()}
					okAll := cur.fields != nil || at.Len() == 0
					for i := int64(0); okAll && i < at.Len(); i++ {
						e, has := cur.fields[fmt.Sprintf("#%d", i)]
						if !has {
							okAll = false
							break
						}
						ev, ok := toVal(e, at.Elem(), f.c)
						if !ok {
							okAll = false
							break
						}
						lv.Elems = append(lv.Elems, ev)
					}
					if okAll {
						env[x] = fval{cv: lv, t: x.Type()}
						return
					}
					// elements that are not plain values (pointers into the fold's memory): a slice over the cell itself
					env[x] = fval{sl: &fslice{base: a.addr.base, n: int(at.Len())}, t: x.Type()}
					return
				}
			}
		}
		env[x] = top
	case *ssa.IndexAddr:
		if sv := f.val(env, x.X); sv.sl != nil {
			if iv := f.val(env, x.Index); iv.k != nil && iv.k.Kind() == constant.Int {
				if i, ok := constant.Int64Val(iv.k); ok && 0 <= i && int(i) < sv.sl.n {
					env[x] = fval{addr: &faddr{base: sv.sl.base, path: append(append([]string{}, sv.sl.path...), fmt.Sprintf("#%d", sv.sl.off+int(i)))}}
					return
				}
			}
			env[x] = top
			return
		}
		if a := f.val(env, x.X); a.addr != nil {
			if iv := f.val(env, x.Index); iv.k != nil && iv.k.Kind() == constant.Int {
				env[x] = fval{addr: &faddr{base: a.addr.base, path: append(append([]string{}, a.addr.path...), "#"+iv.k.ExactString())}}
				return
			}
			// unknown element written or read: forget the array
			delete(mem, a.addr.base)
			env[x] = top
			return
		}
		base := f.val(env, x.X)
		l, ok := base.cv.(*ListV)
		if !ok {
			// the address of an immutable package-level array
			l, ok = base.cvptr.(*ListV)
		}
		if ok {
			if iv := f.val(env, x.Index); iv.k != nil && iv.k.Kind() == constant.Int {
				if i, ok := constant.Int64Val(iv.k); ok && i >= 0 && int(i) < len(l.Elems) {
					env[x] = fval{cvptr: l.Elems[i]}
					return
				}
			}
		}
		env[x] = top
	case *ssa.Index:
		// a byte of a known string
		if sv, iv := f.val(env, x.X), f.val(env, x.Index); sv.k != nil && sv.k.Kind() == constant.String && iv.k != nil && iv.k.Kind() == constant.Int {
			str := constant.StringVal(sv.k)
			if i, ok := constant.Int64Val(iv.k); ok && 0 <= i && i < int64(len(str)) {
				env[x] = fval{k: constant.MakeInt64(int64(str[i])), t: x.Type()}
			} else {
				env[x] = top
			}
			return
		}
		// an element of an array value held as "#i" fields
		if av := f.val(env, x.X); av.fields != nil {
			if iv := f.val(env, x.Index); iv.k != nil && iv.k.Kind() == constant.Int {
				if e, ok := av.fields["#"+iv.k.ExactString()]; ok {
					env[x] = e
					return
				}
			}
			env[x] = top
			return
		}
		if l, ok := f.val(env, x.X).cv.(*ListV); ok {
			if iv := f.val(env, x.Index); iv.k != nil && iv.k.Kind() == constant.Int {
				if i, ok := constant.Int64Val(iv.k); ok && i >= 0 && int(i) < len(l.Elems) {
					env[x] = fromVal(l.Elems[i])
					return
				}
			}
		}
		env[x] = top
	case *ssa.Extract:
		t := f.val(env, x.Tuple)
		if t.tuple != nil && x.Index < len(t.tuple) {
			env[x] = t.tuple[x.Index]
		} else {
			env[x] = top
		}
	default:
		if v, ok := in.(ssa.Value); ok {
			env[v] = top
		}
	}
}

func (f *folder) val(env map[ssa.Value]fval, v ssa.Value) fval {
	switch x := v.(type) {
	case *ssa.Const:
		if x.Value == nil {
			return fval{isNil: true, t: x.Type()}
		}
		return fval{k: x.Value, t: x.Type()}
	case *ssa.Function:
		return fval{fn: x, t: x.Type()}
	case *ssa.Global:
		// the address of an immutable package-level literal
		if gv := f.c.globalTable(x); gv.known() {
			if raw, ok := f.c.globalRaw[x]; ok && raw != nil {
				return fval{cvptr: raw}
			}
			// an array filled by initialiser code: its address reads as that (immutable) list
			if gv.fields != nil {
				if pt, ok := x.Type().Underlying().(*types.Pointer); ok {
					if at, ok := pt.Elem().Underlying().(*types.Array); ok {
						lv := &ListV{T: pt.Elem()}
						okAll := true
						for i := int64(0); okAll && i < at.Len(); i++ {
							e, has := gv.fields[fmt.Sprintf("#%d", i)]
							if !has {
								okAll = false
								break
							}
							ev, ok := toVal(e, at.Elem(), f.c)
							if !ok {
								okAll = false
								break
							}
							lv.Elems = append(lv.Elems, ev)
						}
						if okAll {
							return fval{cvptr: lv}
						}
					}
				}
			}
			// a struct value made by an initialiser call: its address reads as that (immutable) value
			if gv.fields != nil {
				if pt, ok := x.Type().Underlying().(*types.Pointer); ok {
					if sv, ok := toVal(gv, pt.Elem(), f.c); ok {
						return fval{cvptr: sv}
					}
				}
			}
		}
		return top
	}
	if r, ok := env[v]; ok {
		return r
	}
	return top
}

// structEqual: two struct values whose fields are all known constants (or structs of such), compared field by field.
func structEqual(a, b fval) (eq bool, known bool) {
	if a.fields == nil || b.fields == nil || len(a.fields) != len(b.fields) {
		return false, false
	}
	eq = true
	for n, av := range a.fields {
		bv, ok := b.fields[n]
		if !ok {
			return false, false
		}
		switch {
		case av.k != nil && bv.k != nil:
			if av.k.Kind() == constant.Bool || bv.k.Kind() == constant.Bool {
				if av.k.Kind() != bv.k.Kind() {
					return false, false
				}
				if constant.BoolVal(av.k) != constant.BoolVal(bv.k) {
					eq = false
				}
			} else if !constant.Compare(av.k, token.EQL, bv.k) {
				eq = false
			}
		case av.fields != nil && bv.fields != nil:
			e, k := structEqual(av, bv)
			if !k {
				return false, false
			}
			if !e {
				eq = false
			}
		default:
			return false, false
		}
	}
	return eq, true
}

func foldBinOp(op token.Token, a, b fval, t types.Type) fval {
	if (op == token.EQL || op == token.NEQ) && a.fields != nil && b.fields != nil {
		var res fval = top
		func() {
			defer func() { recover() }()
			if eq, known := structEqual(a, b); known {
				if op == token.NEQ {
					eq = !eq
				}
				res = fval{k: constant.MakeBool(eq), t: t}
			}
		}()
		return res
	}
	// comparisons of a value known to be nil / known to be non-nil with nil
	if (op == token.EQL || op == token.NEQ) && a.k == nil && b.k == nil {
		an, bn := a.isNil, b.isNil
		// a known address (of a cell, of a table value) or a known function is not nil
		ann, bnn := a.nonNil || a.cvptr != nil || a.addr != nil || a.fn != nil || a.cv != nil || a.sl != nil, b.nonNil || b.cvptr != nil || b.addr != nil || b.fn != nil || b.cv != nil || b.sl != nil
		if (an || ann) && (bn || bnn) && (an || bn) {
			eq := an && bn
			if op == token.NEQ {
				eq = !eq
			}
			return fval{k: constant.MakeBool(eq), t: t}
		}
		return top
	}
	// short cuts that hold whatever the unknown side is
	if a.k == nil || b.k == nil {
		return top
	}
	defer func() { recover() }()
	switch op {
	case token.EQL, token.NEQ, token.LSS, token.LEQ, token.GTR, token.GEQ:
		if a.k.Kind() == constant.Bool || b.k.Kind() == constant.Bool {
			if op == token.EQL {
				return fval{k: constant.MakeBool(constant.BoolVal(a.k) == constant.BoolVal(b.k)), t: t}
			}
			if op == token.NEQ {
				return fval{k: constant.MakeBool(constant.BoolVal(a.k) != constant.BoolVal(b.k)), t: t}
			}
			return top
		}
		return fval{k: constant.MakeBool(constant.Compare(a.k, op, b.k)), t: t}
	case token.ADD, token.SUB, token.MUL, token.AND, token.OR, token.XOR, token.AND_NOT:
		return fval{k: wrapToType(constant.BinaryOp(a.k, op, b.k), t), t: t}
	case token.SHL, token.SHR:
		if a.k.Kind() == constant.Int && b.k.Kind() == constant.Int {
			if n, exact := constant.Uint64Val(b.k); exact && n < 64 {
				return fval{k: wrapToType(constant.Shift(a.k, op, uint(n)), t), t: t}
			}
		}
		return top
	case token.QUO:
		if a.k.Kind() == constant.Int && b.k.Kind() == constant.Int {
			if constant.Sign(b.k) == 0 {
				return top
			}
			return fval{k: constant.BinaryOp(a.k, token.QUO_ASSIGN, b.k), t: t}
		}
		return fval{k: constant.BinaryOp(a.k, op, b.k), t: t}
	case token.REM:
		if constant.Sign(b.k) == 0 {
			return top
		}
		return fval{k: constant.BinaryOp(a.k, op, b.k), t: t}
	}
	return top
}

func foldUnOp(x *ssa.UnOp, a fval) fval {
	if a.k == nil {
		return top
	}
	switch x.Op {
	case token.NOT:
		if a.k.Kind() == constant.Bool {
			return fval{k: constant.MakeBool(!constant.BoolVal(a.k)), t: x.Type()}
		}
	case token.SUB:
		return fval{k: wrapToType(constant.UnaryOp(token.SUB, a.k, 0), x.Type()), t: x.Type()}
	}
	return top
}

func foldConvert(a fval, t types.Type) fval {
	if a.k == nil {
		return top
	}
	if b, ok := t.Underlying().(*types.Basic); ok {
		if b.Info()&types.IsInteger != 0 && a.k.Kind() == constant.Int {
			return fval{k: wrapToType(a.k, t), t: t}
		}
		if b.Info()&types.IsFloat != 0 && (a.k.Kind() == constant.Int || a.k.Kind() == constant.Float) {
			return fval{k: constant.ToFloat(a.k), t: t}
		}
		// a floating-point value converted to an integer type: the fraction is discarded (truncation towards zero)
		if b.Info()&types.IsInteger != 0 && a.k.Kind() == constant.Float {
			if fv, _ := constant.Float64Val(a.k); !math.IsNaN(fv) && !math.IsInf(fv, 0) && math.Abs(fv) < 1<<62 {
				return fval{k: wrapToType(constant.MakeInt64(int64(math.Trunc(fv))), t), t: t}
			}
		}
	}
	return top
}

// libTransfer: transfer functions for library callees, written from their documentation.
func libTransfer(fn *ssa.Function, args []fval) (fval, error) {
	name := fname(fn)
	boolT := types.Typ[types.Bool]
	argInt := func(i int) (int64, bool) {
		if i < len(args) && args[i].k != nil && args[i].k.Kind() == constant.Int {
			return constant.Int64Val(args[i].k)
		}
		return 0, false
	}
	// Unicode category predicates on a known rune: decided with the unicode package's own tables (the documented categories)
	if r, ok := argInt(0); ok && r >= 0 && len(args) == 1 {
		var f func(rune) bool
		switch name {
		case "unicode.IsSpace":
			f = unicode.IsSpace
		case "unicode.IsDigit":
			f = unicode.IsDigit
		case "unicode.IsNumber":
			f = unicode.IsNumber
		case "unicode.IsLetter":
			f = unicode.IsLetter
		case "unicode.IsUpper":
			f = unicode.IsUpper
		case "unicode.IsLower":
			f = unicode.IsLower
		case "unicode.IsPunct":
			f = unicode.IsPunct
		}
		if f != nil {
			return fval{k: constant.MakeBool(f(rune(r))), t: boolT}, nil
		}
	}
	switch name {
	case "unicode.IsSpace", "unicode.IsDigit", "unicode.IsLetter", "unicode.IsUpper", "unicode.IsLower", "unicode.IsPunct", "unicode.IsNumber", "unicode.IsControl", "unicode.IsGraphic", "unicode.IsPrint", "unicode.IsSymbol", "unicode.IsMark":
		// doc: report whether the rune is in a Unicode category; no category contains a negative code point.
		if r, ok := argInt(0); ok && r < 0 {
			return fval{k: constant.MakeBool(false), t: boolT}, nil
		}
	case "strings.ContainsRune":
		// doc: reports whether the Unicode code point r is within s; a negative r is not a code point of any string.
		if r, ok := argInt(1); ok && r < 0 {
			return fval{k: constant.MakeBool(false), t: boolT}, nil
		}
		if r, ok := argInt(1); ok && len(args) == 2 && args[0].k != nil && args[0].k.Kind() == constant.String && r <= unicode.MaxRune {
			return fval{k: constant.MakeBool(strings.ContainsRune(constant.StringVal(args[0].k), rune(r))), t: boolT}, nil
		}
	case "strings.IndexRune":
		if r, ok := argInt(1); ok && r < 0 {
			return fval{k: constant.MakeInt64(-1), t: types.Typ[types.Int]}, nil
		}
		if r, ok := argInt(1); ok && len(args) == 2 && args[0].k != nil && args[0].k.Kind() == constant.String && r <= unicode.MaxRune {
			return fval{k: constant.MakeInt64(int64(strings.IndexRune(constant.StringVal(args[0].k), rune(r)))), t: types.Typ[types.Int]}, nil
		}
	case "strings.IndexByte", "strings.LastIndexByte":
		// doc: the index of the first (last) instance of the byte c in s, or -1
		if b, ok := argInt(1); ok && len(args) == 2 && args[0].k != nil && args[0].k.Kind() == constant.String && 0 <= b && b <= 255 {
			r := strings.IndexByte(constant.StringVal(args[0].k), byte(b))
			if name == "strings.LastIndexByte" {
				r = strings.LastIndexByte(constant.StringVal(args[0].k), byte(b))
			}
			return fval{k: constant.MakeInt64(int64(r)), t: types.Typ[types.Int]}, nil
		}
	case "strings.Index", "strings.LastIndex", "strings.IndexAny", "strings.Count":
		if a, b, ok := twoStrings(args); ok {
			var r int
			switch name {
			case "strings.Index":
				r = strings.Index(a, b)
			case "strings.LastIndex":
				r = strings.LastIndex(a, b)
			case "strings.IndexAny":
				r = strings.IndexAny(a, b)
			default:
				r = strings.Count(a, b)
			}
			return fval{k: constant.MakeInt64(int64(r)), t: types.Typ[types.Int]}, nil
		}
	case "math.Round", "math.Floor", "math.Ceil", "math.Trunc", "math.Abs":
		if len(args) == 1 && args[0].k != nil && (args[0].k.Kind() == constant.Float || args[0].k.Kind() == constant.Int) {
			v, _ := constant.Float64Val(constant.ToFloat(args[0].k))
			switch name {
			case "math.Round":
				v = math.Round(v)
			case "math.Floor":
				v = math.Floor(v)
			case "math.Ceil":
				v = math.Ceil(v)
			case "math.Trunc":
				v = math.Trunc(v)
			default:
				v = math.Abs(v)
			}
			return fval{k: constant.MakeFloat64(v), t: types.Typ[types.Float64]}, nil
		}
	case "gitlab.com/gomidi/midi/v2/smf.MetricTicks.Ticks4th":
		// doc: Ticks4th returns the ticks of a quarter note - the resolution itself (960 when the resolution is 0)
		if q, ok := argInt(0); ok && len(args) == 1 {
			if q == 0 {
				q = 960
			}
			return fval{k: constant.MakeInt64(q), t: types.Typ[types.Uint32]}, nil
		}
	case "errors.Join":
		// doc: Join returns nil if every value in errs is nil, otherwise an error that wraps the non-nil ones
		if len(args) == 1 {
			if args[0].isNil {
				return fval{isNil: true}, nil
			}
			if l, ok := args[0].cv.(*ListV); ok {
				anyErr := false
				for _, e := range l.Elems {
					if _, isNil := e.(*NilV); !isNil {
						anyErr = true
					}
				}
				if !anyErr {
					return fval{isNil: true}, nil
				}
				return fval{nonNil: true}, nil
			}
		}
	case "strings.CutPrefix", "strings.CutSuffix":
		if a, b, ok := twoStrings(args); ok {
			var rest string
			var found bool
			if name == "strings.CutPrefix" {
				rest, found = strings.CutPrefix(a, b)
			} else {
				rest, found = strings.CutSuffix(a, b)
			}
			return fval{tuple: []fval{{k: constant.MakeString(rest), t: types.Typ[types.String]}, {k: constant.MakeBool(found), t: boolT}}}, nil
		}
	case "strings.Cut":
		if a, b, ok := twoStrings(args); ok {
			before, after, found := strings.Cut(a, b)
			return fval{tuple: []fval{{k: constant.MakeString(before), t: types.Typ[types.String]}, {k: constant.MakeString(after), t: types.Typ[types.String]}, {k: constant.MakeBool(found), t: boolT}}}, nil
		}
	case "strings.Split", "strings.SplitN", "strings.Fields":
		strList := func(ss []string) fval {
			l := &ListV{T: types.NewSlice(types.Typ[types.String])}
			for _, x := range ss {
				l.Elems = append(l.Elems, &CVal{V: constant.MakeString(x), T: types.Typ[types.String]})
			}
			if ss == nil {
				return fval{isNil: true, t: l.T}
			}
			return fval{cv: l, t: l.T}
		}
		switch {
		case name == "strings.Fields" && len(args) == 1 && args[0].k != nil && args[0].k.Kind() == constant.String:
			return strList(strings.Fields(constant.StringVal(args[0].k))), nil
		case name == "strings.Split":
			if a, b, ok := twoStrings(args); ok {
				return strList(strings.Split(a, b)), nil
			}
		case name == "strings.SplitN" && len(args) == 3 && args[2].k != nil && args[2].k.Kind() == constant.Int:
			if a, b, ok := twoStrings(args[:2]); ok {
				n, _ := constant.Int64Val(args[2].k)
				return strList(strings.SplitN(a, b, int(n))), nil
			}
		}
	case "math/bits.OnesCount", "math/bits.OnesCount8", "math/bits.OnesCount16", "math/bits.OnesCount32", "math/bits.OnesCount64", "math/bits.Len", "math/bits.Len8", "math/bits.Len16", "math/bits.Len32", "math/bits.Len64", "math/bits.TrailingZeros", "math/bits.TrailingZeros8", "math/bits.TrailingZeros16", "math/bits.TrailingZeros32", "math/bits.TrailingZeros64":
		if len(args) == 1 && args[0].k != nil && args[0].k.Kind() == constant.Int {
			if u, exact := constant.Uint64Val(args[0].k); exact {
				width := 64
				for _, w := range []int{8, 16, 32} {
					if strings.HasSuffix(name, fmt.Sprint(w)) {
						width = w
					}
				}
				r := 0
				switch {
				case strings.Contains(name, "OnesCount"):
					r = bits.OnesCount64(u)
				case strings.Contains(name, "Len"):
					r = bits.Len64(u)
				default:
					r = bits.TrailingZeros64(u)
					if u == 0 {
						r = width
					}
				}
				return fval{k: constant.MakeInt64(int64(r)), t: types.Typ[types.Int]}, nil
			}
		}
	case "strings.Compare":
		if a, b, ok := twoStrings(args); ok {
			return fval{k: constant.MakeInt64(int64(strings.Compare(a, b))), t: types.Typ[types.Int]}, nil
		}
	case "strings.ContainsAny", "strings.EqualFold":
		if a, b, ok := twoStrings(args); ok {
			r := strings.ContainsAny(a, b)
			if name == "strings.EqualFold" {
				r = strings.EqualFold(a, b)
			}
			return fval{k: constant.MakeBool(r), t: boolT}, nil
		}
	case "strings.ToUpper", "strings.ToLower", "strings.TrimSpace", "strings.Title":
		if len(args) == 1 && args[0].k != nil && args[0].k.Kind() == constant.String {
			a := constant.StringVal(args[0].k)
			switch name {
			case "strings.ToUpper":
				a = strings.ToUpper(a)
			case "strings.ToLower":
				a = strings.ToLower(a)
			case "strings.TrimSpace":
				a = strings.TrimSpace(a)
			default:
				return top, fmt.Errorf("no transfer function for %s", name)
			}
			return fval{k: constant.MakeString(a), t: types.Typ[types.String]}, nil
		}
	case "errors.New":
		nextErrID++
		return fval{nonNil: true, errID: nextErrID}, nil
	case "fmt.Errorf":
		// doc: Errorf formats and returns the string as a value that satisfies error - never nil; which errors it wraps is not tracked
		return fval{nonNil: true}, nil
	case "errors.Is":
		// doc: Is reports whether any error in err's tree matches target; folded only for plain (unwrapped) values of known identity
		if len(args) == 2 {
			if args[0].isNil {
				return fval{k: constant.MakeBool(false), t: boolT}, nil
			}
			if args[0].nonNil && args[1].nonNil && args[0].errID != 0 && args[1].errID != 0 {
				return fval{k: constant.MakeBool(args[0].errID == args[1].errID), t: boolT}, nil
			}
		}
	case "strings.Contains", "strings.HasPrefix", "strings.HasSuffix":
		if a, b, ok := twoStrings(args); ok {
			var r bool
			switch name {
			case "strings.Contains":
				r = strings.Contains(a, b)
			case "strings.HasPrefix":
				r = strings.HasPrefix(a, b)
			default:
				r = strings.HasSuffix(a, b)
			}
			return fval{k: constant.MakeBool(r), t: boolT}, nil
		}
	case "strings.Trim", "strings.TrimLeft", "strings.TrimRight", "strings.TrimPrefix", "strings.TrimSuffix":
		if a, b, ok := twoStrings(args); ok {
			var r string
			switch name {
			case "strings.Trim":
				r = strings.Trim(a, b)
			case "strings.TrimLeft":
				r = strings.TrimLeft(a, b)
			case "strings.TrimRight":
				r = strings.TrimRight(a, b)
			case "strings.TrimPrefix":
				r = strings.TrimPrefix(a, b)
			default:
				r = strings.TrimSuffix(a, b)
			}
			return fval{k: constant.MakeString(r), t: types.Typ[types.String]}, nil
		}
	case "strconv.ParseUint":
		// doc: ParseUint(s, base, bitSize); a failure yields a non-nil *NumError
		if len(args) == 3 && args[0].k != nil && args[0].k.Kind() == constant.String {
			base, ok1 := argInt(1)
			bits, ok2 := argInt(2)
			if ok1 && ok2 {
				n, err := strconv.ParseUint(constant.StringVal(args[0].k), int(base), int(bits))
				if err != nil {
					nextErrID++
					return fval{tuple: []fval{{k: constant.MakeUint64(0), t: types.Typ[types.Uint64]}, {nonNil: true, errID: nextErrID}}}, nil
				}
				return fval{tuple: []fval{{k: constant.MakeUint64(n), t: types.Typ[types.Uint64]}, {isNil: true}}}, nil
			}
		}
	case "strconv.Atoi", "strconv.ParseInt":
		// doc: Atoi is ParseInt(s, 10, 0) converted to int; a failure yields a non-nil *NumError
		if len(args) >= 1 && args[0].k != nil && args[0].k.Kind() == constant.String {
			base, bitsz := int64(10), int64(0)
			ok := true
			if name == "strconv.ParseInt" {
				var ok1, ok2 bool
				base, ok1 = argInt(1)
				bitsz, ok2 = argInt(2)
				ok = len(args) == 3 && ok1 && ok2
			}
			if ok {
				n, err := strconv.ParseInt(constant.StringVal(args[0].k), int(base), int(bitsz))
				rt := types.Typ[types.Int64]
				if name == "strconv.Atoi" {
					rt = types.Typ[types.Int]
				}
				if err != nil {
					nextErrID++
					return fval{tuple: []fval{{k: constant.MakeInt64(0), t: rt}, {nonNil: true, errID: nextErrID}}}, nil
				}
				return fval{tuple: []fval{{k: constant.MakeInt64(n), t: rt}, {isNil: true}}}, nil
			}
		}
	case "strings.Join":
		// doc: Join concatenates the elements of its first argument to create a single string, sep between elements.
		if len(args) == 2 && args[1].k != nil && args[1].k.Kind() == constant.String {
			if l, ok := args[0].cv.(*ListV); ok {
				var parts []string
				for _, e := range l.Elems {
					s, ok := asStr(e)
					if !ok {
						return top, fmt.Errorf("strings.Join over non-constant elements")
					}
					parts = append(parts, s)
				}
				return fval{k: constant.MakeString(strings.Join(parts, constant.StringVal(args[1].k))), t: types.Typ[types.String]}, nil
			}
		}
	case "fmt.Sprintf", "fmt.Sprint":
		// only plain %s / %d / %v of constant strings and integers
		if name == "fmt.Sprintf" && len(args) == 2 && args[0].k != nil && args[0].k.Kind() == constant.String {
			if l, ok := args[1].cv.(*ListV); ok {
				format := constant.StringVal(args[0].k)
				var vals []any
				for _, e := range l.Elems {
					cv, ok := e.(*CVal)
					if !ok {
						return top, fmt.Errorf("fmt.Sprintf with non-constant operands")
					}
					if hasPrinterMethod(cv.T) {
						return top, fmt.Errorf("fmt.Sprintf of a value with its own String / Error method")
					}
					switch cv.V.Kind() {
					case constant.String:
						vals = append(vals, constant.StringVal(cv.V))
					case constant.Int:
						n, _ := constant.Int64Val(cv.V)
						vals = append(vals, n)
					default:
						return top, fmt.Errorf("fmt.Sprintf with unsupported operand")
					}
				}
				for i := 0; i+1 < len(format); i++ {
					if format[i] == '%' && !strings.ContainsRune("sdv%", rune(format[i+1])) {
						return top, fmt.Errorf("fmt.Sprintf verb not modelled")
					}
				}
				return fval{k: constant.MakeString(fmt.Sprintf(format, vals...)), t: types.Typ[types.String]}, nil
			}
		}
		// Sprint of one integer or string: its default format
		if name == "fmt.Sprint" && len(args) == 1 {
			if l, ok := args[0].cv.(*ListV); ok && len(l.Elems) == 1 {
				if cv, ok := l.Elems[0].(*CVal); ok && !hasPrinterMethod(cv.T) {
					switch cv.V.Kind() {
					case constant.String:
						return fval{k: cv.V, t: types.Typ[types.String]}, nil
					case constant.Int:
						return fval{k: constant.MakeString(cv.V.ExactString()), t: types.Typ[types.String]}, nil
					}
				}
			}
		}
	case "regexp.MustCompile":
		// doc: MustCompile parses a regular expression and returns a Regexp that can be used to match against text; it panics if the expression cannot be parsed
		if len(args) == 1 && args[0].k != nil && args[0].k.Kind() == constant.String {
			if re, err := regexp.Compile(constant.StringVal(args[0].k)); err == nil {
				return fval{re: re}, nil
			}
		}
	case "regexp.Regexp.FindAllStringSubmatch", "regexp.Regexp.FindStringSubmatch", "regexp.Regexp.MatchString":
		// matching a known pattern against a known text: decided by the regexp package itself (the documented semantics)
		if len(args) >= 2 && args[0].re != nil && args[1].k != nil && args[1].k.Kind() == constant.String {
			text := constant.StringVal(args[1].k)
			strs := func(ss []string) *ListV {
				l := &ListV{T: types.NewSlice(types.Typ[types.String])}
				for _, x := range ss {
					l.Elems = append(l.Elems, &CVal{V: constant.MakeString(x), T: types.Typ[types.String]})
				}
				return l
			}
			switch name {
			case "regexp.Regexp.MatchString":
				return fval{k: constant.MakeBool(args[0].re.MatchString(text)), t: boolT}, nil
			case "regexp.Regexp.FindStringSubmatch":
				m := args[0].re.FindStringSubmatch(text)
				if m == nil {
					// doc: a return value of nil indicates no match
					return fval{isNil: true, t: types.NewSlice(types.Typ[types.String])}, nil
				}
				return fval{cv: strs(m)}, nil
			default:
				if n, ok := argInt(2); ok {
					out := &ListV{T: types.NewSlice(types.NewSlice(types.Typ[types.String]))}
					for _, m := range args[0].re.FindAllStringSubmatch(text, int(n)) {
						out.Elems = append(out.Elems, strs(m))
					}
					return fval{cv: out}, nil
				}
			}
		}
	case "strconv.FormatUint", "strconv.FormatInt":
		// doc: the string representation of i in the given base; base 10 modelled
		if len(args) == 2 && args[0].k != nil && args[0].k.Kind() == constant.Int {
			if b, ok := argInt(1); ok && b == 10 {
				return fval{k: constant.MakeString(args[0].k.ExactString()), t: types.Typ[types.String]}, nil
			}
		}
	case "strconv.Itoa":
		if len(args) == 1 && args[0].k != nil && args[0].k.Kind() == constant.Int {
			return fval{k: constant.MakeString(args[0].k.ExactString()), t: types.Typ[types.String]}, nil
		}
	case "slices.Index", "slices.Contains":
		// doc: Index returns the index of the first occurrence of v in s, or -1 if not present; Contains reports whether v is present.
		if len(args) == 2 && args[1].k != nil {
			if l, ok := args[0].cv.(*ListV); ok {
				idx := int64(-1)
				for i, e := range l.Elems {
					ce, ok := e.(*CVal)
					if !ok || ce.V.Kind() != args[1].k.Kind() {
						return top, fmt.Errorf("%s over non-constant elements", name)
					}
					if idx < 0 && constant.Compare(ce.V, token.EQL, args[1].k) {
						idx = int64(i)
					}
				}
				if name == "slices.Contains" {
					return fval{k: constant.MakeBool(idx >= 0), t: boolT}, nil
				}
				return fval{k: constant.MakeInt64(idx), t: types.Typ[types.Int]}, nil
			}
		}
	}
	if foldDebugCalls {
		var as []string
		for _, a := range args {
			as = append(as, a.String())
		}
		fmt.Fprintf(os.Stderr, "  no transfer: %s(%s)\n", name, strings.Join(as, ", "))
	}
	return top, fmt.Errorf("no transfer function for %s with these arguments", name)
}

// fromVal converts a table value (consteval) into a folder value.
func fromVal(v Val) fval {
	switch x := v.(type) {
	case *CVal:
		return fval{k: x.V, t: x.T}
	case *StructV:
		fs := map[string]fval{}
		for n, fv := range x.Fields {
			fs[n] = fromVal(fv)
		}
		return fval{fields: fs, t: x.T}
	case *MapV, *ListV:
		return fval{cv: v}
	case *PtrV:
		return fval{cvptr: x.Elem}
	case *RefV:
		return fval{addr: x.Addr}
	case *NilV:
		return fval{isNil: true, t: x.T}
	case *FuncV:
		if x.F == nil {
			return fval{fn: x.Fn, t: x.Fn.Signature}
		}
		return fval{fn: x.Fn, t: x.F.Type()}
	}
	return top
}

// zeroFval: the zero value of a basic / struct type.
func zeroFval(t types.Type) fval {
	switch u := t.Underlying().(type) {
	case *types.Basic:
		switch {
		case u.Info()&types.IsBoolean != 0:
			return fval{k: constant.MakeBool(false), t: t}
		case u.Info()&types.IsString != 0:
			return fval{k: constant.MakeString(""), t: t}
		case u.Info()&types.IsInteger != 0:
			return fval{k: constant.MakeInt64(0), t: t}
		case u.Info()&types.IsFloat != 0:
			return fval{k: constant.MakeFloat64(0), t: t}
		}
	case *types.Struct:
		fs := map[string]fval{}
		for i := 0; i < u.NumFields(); i++ {
			fs[u.Field(i).Name()] = zeroFval(u.Field(i).Type())
		}
		return fval{fields: fs, t: t}
	case *types.Pointer, *types.Slice, *types.Map, *types.Interface, *types.Signature:
		return fval{isNil: true, t: t}
	}
	return top
}

// foldLookup: m[k] on an immutable map table with a constant key (also string indexing is left unknown).
func foldLookup(x *ssa.Lookup, m, k fval) fval {
	mv, ok := m.cv.(*MapV)
	if !ok || (k.k == nil && k.fields == nil) {
		return top
	}
	mt, ok := x.X.Type().Underlying().(*types.Map)
	if !ok {
		return top
	}
	var hit Val
	for _, e := range mv.Entries {
		switch ck := e.K.(type) {
		case *CVal:
			if k.k == nil {
				return top
			}
			if ck.V.Kind() == k.k.Kind() && constant.Compare(ck.V, token.EQL, k.k) {
				hit = e.V
			}
		case *StructV:
			// a struct key: every field of the literal must be a constant and the looked-up key must know all of them
			if k.fields == nil {
				return top
			}
			same := true
			for fn, fv := range ck.Fields {
				cv, ok := fv.(*CVal)
				kv, has := k.fields[fn]
				if !ok || !has || kv.k == nil || kv.k.Kind() != cv.V.Kind() {
					return top
				}
				if !constant.Compare(cv.V, token.EQL, kv.k) {
					same = false
				}
			}
			// fields the literal leaves out are zero
			if st, ok := mt.Key().Underlying().(*types.Struct); ok {
				for i := 0; i < st.NumFields(); i++ {
					n := st.Field(i).Name()
					if _, given := ck.Fields[n]; !given {
						kv, has := k.fields[n]
						z := zeroFval(st.Field(i).Type())
						if !has || kv.k == nil || z.k == nil {
							return top
						}
						if !constant.Compare(z.k, token.EQL, kv.k) {
							same = false
						}
					}
				}
			}
			if same {
				hit = e.V
			}
		default:
			return top
		}
	}
	var v fval
	if hit != nil {
		v = fromVal(hit)
	} else {
		v = zeroFval(mt.Elem())
	}
	if x.CommaOk {
		return fval{tuple: []fval{v, {k: constant.MakeBool(hit != nil), t: types.Typ[types.Bool]}}}
	}
	return v
}

// globalTable: the value of a package-level variable that is initialised by a constant literal and never written afterwards.
func (c *Ctx) globalTable(g *ssa.Global) fval {
	if c.globalTabs == nil {
		c.globalTabs = map[*ssa.Global]fval{}
	}
	if v, ok := c.globalTabs[g]; ok {
		return v
	}
	c.globalTabs[g] = top
	if g.Pkg == nil || !c.isRepoPkgPath(g.Pkg.Pkg.Path()) {
		return top
	}
	obj, ok := g.Object().(*types.Var)
	if !ok {
		return top
	}
	// immutable: outside the package initialiser the variable is only ever loaded
	for _, fn := range c.srcFuncs() {
		if fn.Name() == "init" && fn.Synthetic != "" {
			continue
		}
		mutated := false
		allInstrs(fn, func(in ssa.Instruction) {
			for _, op := range in.Operands(nil) {
				if *op != ssa.Value(g) {
					continue
				}
				if u, ok := in.(*ssa.UnOp); ok && u.Op == token.MUL {
					// a load; writes through the loaded map/slice are looked for below
					for _, r := range *u.Referrers() {
						switch w := r.(type) {
						case *ssa.MapUpdate:
							if w.Map == ssa.Value(u) {
								mutated = true
							}
						case *ssa.IndexAddr:
							for _, rr := range *w.Referrers() {
								if st, ok := rr.(*ssa.Store); ok && st.Addr == ssa.Value(w) {
									mutated = true
								}
							}
						}
					}
					continue
				}
				// taking the address of a field / element only to read it
				if av, ok := in.(ssa.Value); ok && readOnlyAddr(av, 0) {
					continue
				}
				mutated = true
			}
		})
		if mutated {
			return top
		}
	}
	val, _, err := c.evalVar(obj)
	if err != nil {
		// an initialiser that is a call of a repo function with constant arguments (util.MustNewRing(C, D, ...)): fold the call
		if r, ok := c.foldInitCall(g, obj); ok {
			c.globalTabs[g] = r
			if c.globalRaw == nil {
				c.globalRaw = map[*ssa.Global]Val{}
			}
			c.globalRaw[g] = r.cv
			return r
		}
		// any other initialiser code (a loop over seeds, an immediately called function, several variables from one
		// call): what the package's init function stores into the variable when it is folded as a whole
		if r, ok := c.foldPkgInit(g.Pkg)[g]; ok && r.known() {
			if mv, isMap := r.cv.(*MapV); !isMap || !c.initPoisoned[mv] {
				c.globalTabs[g] = r
				if c.globalRaw == nil {
					c.globalRaw = map[*ssa.Global]Val{}
				}
				c.globalRaw[g] = r.cv
				return r
			}
		}
		return top
	}
	r := fromVal(val)
	c.globalTabs[g] = r
	if c.globalRaw == nil {
		c.globalRaw = map[*ssa.Global]Val{}
	}
	c.globalRaw[g] = val
	return r
}

// setFvalPath returns cur with the field / element path replaced by v (copy on write; absent fields stay unknown).
func setFvalPath(cur fval, path []string, v fval) fval {
	if len(path) == 0 {
		return v
	}
	nf := map[string]fval{}
	for k, x := range cur.fields {
		nf[k] = x
	}
	nf[path[0]] = setFvalPath(cur.fields[path[0]], path[1:], v)
	return fval{fields: nf, t: cur.t}
}

// readOnlyAddr: the address (of a field or element) is only ever loaded from.
func readOnlyAddr(a ssa.Value, depth int) bool {
	switch a.(type) {
	case *ssa.FieldAddr, *ssa.IndexAddr:
	default:
		return false
	}
	refs := a.Referrers()
	if refs == nil || depth > 4 {
		return false
	}
	for _, r := range *refs {
		switch x := r.(type) {
		case *ssa.UnOp:
			if x.Op != token.MUL {
				return false
			}
		case *ssa.FieldAddr, *ssa.IndexAddr:
			if !readOnlyAddr(x.(ssa.Value), depth+1) {
				return false
			}
		case *ssa.DebugRef:
		default:
			return false
		}
	}
	return true
}

// foldInitCall: the variable is initialised by `f(consts...)` with f a repo function: fold that call in the package initialiser.
func (c *Ctx) foldInitCall(g *ssa.Global, obj *types.Var) (fval, bool) {
	if g.Pkg == nil {
		return top, false
	}
	initFn := g.Pkg.Func("init")
	if initFn == nil {
		return top, false
	}
	// the store `g = <value>` in the package initialiser
	var stored ssa.Value
	n := 0
	allInstrs(initFn, func(in ssa.Instruction) {
		if st, ok := in.(*ssa.Store); ok && st.Addr == ssa.Value(g) {
			n++
			stored = st.Val
		}
	})
	if n != 1 || stored == nil {
		return top, false
	}
	fd := c.newFolder()
	result, ok := c.initValue(fd, g, stored, 0)
	if !ok || (result.cv == nil && result.k == nil && result.fields == nil && result.fn == nil && !result.nonNil) {
		return top, false
	}
	if mv, ok := result.cv.(*MapV); ok && fd.poisoned[mv] {
		return top, false
	}
	return result, true
}

// initValue evaluates a value computed in a package initialiser: constants, conversions between integer types, loads of
// other immutable globals, variadic lists of constants, and calls of repo functions whose arguments are again such values.
func (c *Ctx) initValue(fd *folder, g *ssa.Global, v ssa.Value, depth int) (fval, bool) {
	if depth > 6 {
		return top, false
	}
	switch x := v.(type) {
	case *ssa.Const:
		if x.Value == nil {
			return top, false
		}
		return fval{k: x.Value, t: x.Type()}, true
	case *ssa.ChangeType:
		r, ok := c.initValue(fd, g, x.X, depth+1)
		if ok && r.k != nil {
			r.t = x.Type()
		}
		return r, ok
	case *ssa.Convert:
		r, ok := c.initValue(fd, g, x.X, depth+1)
		if !ok || r.k == nil || r.k.Kind() != constant.Int {
			return top, false
		}
		// only conversions that keep the value: the result must be representable in the target type
		if b, isB := x.Type().Underlying().(*types.Basic); !isB || b.Info()&types.IsInteger == 0 || !representable(r.k, b) {
			return top, false
		}
		r.t = x.Type()
		return r, true
	case *ssa.UnOp:
		if x.Op == token.MUL {
			if g2, ok := x.X.(*ssa.Global); ok && g2 != g {
				if v2 := c.globalTable(g2); v2.known() {
					return v2, true
				}
			}
		}
		return top, false
	case *ssa.Call:
		callee := staticCallee(&x.Call)
		if callee == nil {
			return top, false
		}
		if !c.isRepoFunc(callee) && fname(callee) != "errors.New" {
			return top, false
		}
		var as []fval
		for _, a := range x.Call.Args {
			if r, ok := c.initValue(fd, g, a, depth+1); ok {
				as = append(as, r)
				continue
			}
			list, ok := variadicConsts(a)
			if !ok {
				return top, false
			}
			lv := &ListV{T: a.Type()}
			var et types.Type
			if st, ok := a.Type().Underlying().(*types.Slice); ok {
				et = st.Elem()
			}
			for _, v := range list {
				lv.Elems = append(lv.Elems, &CVal{V: constant.MakeInt64(v), T: et, c: c})
			}
			as = append(as, fval{cv: lv, t: a.Type()})
		}
		result, err := fd.foldCall(callee, as)
		if err != nil {
			return top, false
		}
		return result, true
	}
	return top, false
}

// representable: the integer constant fits the basic integer type.
func representable(k constant.Value, b *types.Basic) bool {
	n, ok := constant.Int64Val(k)
	if !ok {
		return false
	}
	switch b.Kind() {
	case types.Int8:
		return n >= -128 && n <= 127
	case types.Uint8:
		return n >= 0 && n <= 255
	case types.Int16:
		return n >= -32768 && n <= 32767
	case types.Uint16:
		return n >= 0 && n <= 65535
	case types.Int32:
		return n >= -(1<<31) && n <= (1<<31)-1
	case types.Uint32:
		return n >= 0 && n <= (1<<32)-1
	case types.Int, types.Int64:
		return true
	case types.Uint, types.Uint64, types.Uintptr:
		return n >= 0
	}
	return false
}

var nextErrID int

func twoStrings(args []fval) (string, string, bool) {
	if len(args) != 2 || args[0].k == nil || args[1].k == nil || args[0].k.Kind() != constant.String || args[1].k.Kind() != constant.String {
		return "", "", false
	}
	return constant.StringVal(args[0].k), constant.StringVal(args[1].k), true
}

// toVal converts a fully known folder value (a constant, or a struct of such) into a table value.
func toVal(v fval, t types.Type, c *Ctx) (Val, bool) {
	if v.k != nil {
		return &CVal{V: v.k, T: t, c: c}, true
	}
	if v.cv != nil {
		// a table value inside a table (a set of names in a signature row)
		return v.cv, true
	}
	if v.addr != nil {
		// a pointer into the fold's memory
		return &RefV{Addr: v.addr}, true
	}
	if v.isNil {
		switch t.Underlying().(type) {
		case *types.Pointer, *types.Slice, *types.Map, *types.Interface, *types.Signature:
			return &NilV{T: t}, true
		}
	}
	if v.fn != nil && len(v.bind) == 0 {
		// a function in a table (a function literal of the initialiser that captures nothing, or a named function)
		if _, isSig := t.Underlying().(*types.Signature); isSig {
			f, _ := v.fn.Object().(*types.Func)
			return &FuncV{F: f, Fn: v.fn}, true
		}
	}
	if v.fields != nil {
		st, ok := t.Underlying().(*types.Struct)
		if !ok {
			return nil, false
		}
		sv := &StructV{T: t, Fields: map[string]Val{}}
		for i := 0; i < st.NumFields(); i++ {
			n := st.Field(i).Name()
			fv, has := v.fields[n]
			if !has {
				fv = zeroFval(st.Field(i).Type())
			}
			x, ok := toVal(fv, st.Field(i).Type(), c)
			if !ok {
				return nil, false
			}
			sv.Fields[n] = x
			sv.Order = append(sv.Order, n)
		}
		return sv, true
	}
	return nil, false
}

// wrapToType: an integer constant reduced to the range of a fixed-width integer type, as Go's arithmetic and conversions
// do (modulo 2^width); other values and types are returned as they are.
func wrapToType(k constant.Value, t types.Type) constant.Value {
	if k == nil || k.Kind() != constant.Int || t == nil {
		return k
	}
	b, ok := t.Underlying().(*types.Basic)
	if !ok || b.Info()&types.IsInteger == 0 || b.Info()&types.IsUntyped != 0 {
		return k
	}
	var bits uint
	signed := b.Info()&types.IsUnsigned == 0
	switch b.Kind() {
	case types.Int8, types.Uint8:
		bits = 8
	case types.Int16, types.Uint16:
		bits = 16
	case types.Int32, types.Uint32:
		bits = 32
	default:
		bits = 64
	}
	var n *big.Int
	switch v := constant.Val(k).(type) {
	case int64:
		n = big.NewInt(v)
	case *big.Int:
		n = new(big.Int).Set(v)
	default:
		return k
	}
	mod := new(big.Int).Lsh(big.NewInt(1), bits)
	n.Mod(n, mod) // 0 <= n < 2^bits
	if signed {
		half := new(big.Int).Lsh(big.NewInt(1), bits-1)
		if n.Cmp(half) >= 0 {
			n.Sub(n, mod)
		}
	}
	return constant.Make(n)
}

// hasPrinterMethod: fmt prints values of this type through their own String / Error method.
func hasPrinterMethod(t types.Type) bool {
	if t == nil {
		return false
	}
	for _, tt := range []types.Type{t, types.NewPointer(t)} {
		ms := types.NewMethodSet(tt)
		for i := 0; i < ms.Len(); i++ {
			if n := ms.At(i).Obj().Name(); n == "String" || n == "Error" || n == "Format" || n == "GoString" {
				return true
			}
		}
	}
	return false
}

// deref: what a pointer result of the last outermost fold points to (⊤ when it is not a known address).
func (f *folder) deref(v fval) fval {
	if v.cvptr != nil {
		return fromVal(v.cvptr)
	}
	if v.addr == nil || f.heap == nil {
		return top
	}
	cur, ok := f.heap[v.addr.base]
	for _, part := range v.addr.path {
		if !ok || cur.fields == nil {
			return top
		}
		cur, ok = cur.fields[part]
	}
	if !ok {
		return top
	}
	return cur
}

// foldPkgInit folds the package's init function as a whole and returns what it stores into each package-level variable
// (⊤ where the initialiser does not fold). Calls of other packages' init functions are skipped; their variables are read
// through globalTable. The result is cached; while it is being computed, variables of the same package read as ⊤.
func (c *Ctx) foldPkgInit(pkg *ssa.Package) map[*ssa.Global]fval {
	if pkg == nil {
		return nil
	}
	if c.pkgInits == nil {
		c.pkgInits = map[*ssa.Package]map[*ssa.Global]fval{}
		c.initPoisoned = map[*MapV]bool{}
	}
	if r, ok := c.pkgInits[pkg]; ok {
		return r
	}
	c.pkgInits[pkg] = map[*ssa.Global]fval{} // in progress
	initFn := pkg.Func("init")
	if initFn == nil || len(initFn.Blocks) == 0 {
		return nil
	}
	fd := c.newFolder()
	fd.maxSteps = 400000
	fd.globalStore = map[*ssa.Global]fval{}
	fd.skipInits = true
	fd.foldCall(initFn, nil)
	for mv := range fd.poisoned {
		c.initPoisoned[mv] = true
	}
	c.pkgInits[pkg] = fd.globalStore
	if os.Getenv("CRDCHECK_DEBUG") != "" {
		var names []string
		for g, v := range fd.globalStore {
			st := "known"
			if !v.known() {
				st = "unknown"
			} else if mv, ok := v.cv.(*MapV); ok && fd.poisoned[mv] {
				st = "poisoned map"
			}
			names = append(names, g.Name()+"="+st)
		}
		sort.Strings(names)
		fmt.Fprintf(os.Stderr, "foldPkgInit %s: %v\n", pkg.Pkg.Path(), names)
	}
	return fd.globalStore
}

// holdsPoisoned: the table value contains (at any depth) a map that received something unknown.
func (f *folder) holdsPoisoned(v Val, depth int) bool {
	if depth > 6 {
		return true
	}
	switch x := v.(type) {
	case *MapV:
		if f.poisoned[x] {
			return true
		}
		for _, e := range x.Entries {
			if f.holdsPoisoned(e.K, depth+1) || f.holdsPoisoned(e.V, depth+1) {
				return true
			}
		}
	case *ListV:
		for _, e := range x.Elems {
			if f.holdsPoisoned(e, depth+1) {
				return true
			}
		}
	case *StructV:
		for _, e := range x.Fields {
			if f.holdsPoisoned(e, depth+1) {
				return true
			}
		}
	}
	return false
}

// iterTransfer: the standard library's collectors of iterators (maps.Collect, slices.Collect, slices.AppendSeq) applied
// to an iterator of the repository: the iterator function is folded with a yield of the folder's own that records what
// it is handed, in order. doc: Collect collects key-value pairs from seq into a new map (a later pair with the same
// key replaces the earlier one); slices.Collect collects values into a new slice; AppendSeq appends them to s.
func (f *folder) iterTransfer(fn *ssa.Function, args []fval) (fval, bool, error) {
	name := fname(fn)
	if i := strings.Index(name, "["); i >= 0 {
		name = name[:i]
	}
	boolT := types.Typ[types.Bool]
	yes := fval{k: constant.MakeBool(true), t: boolT}
	run := func(seq fval, yield fval) error {
		if seq.seq != nil {
			for _, it := range seq.seq.items {
				if r, ok := yield.native(it); !ok || r.k == nil {
					return fmt.Errorf("%s: an element that is not known", name)
				}
			}
			return nil
		}
		if seq.fn == nil {
			return fmt.Errorf("%s: the iterator is not a known function", name)
		}
		shared := f.heap
		if seq.bind != nil && seq.heap != nil {
			shared = seq.heap
		}
		_, err := f.foldCallEnv(seq.fn, []fval{yield}, seq.bind, shared)
		return err
	}
	switch name {
	case "maps.Keys", "maps.Values", "maps.All":
		// doc: an iterator over the keys / values / pairs of m, in the order a range over m visits them (unspecified;
		// here: the order of insertion, reversed under reverseMaps)
		if len(args) != 1 {
			return top, false, nil
		}
		if args[0].isNil {
			return fval{seq: &fseq{}}, true, nil
		}
		mv, ok := args[0].cv.(*MapV)
		if !ok || (f.poisoned != nil && f.poisoned[mv]) {
			return top, false, nil
		}
		es := append([]KV{}, mv.Entries...)
		if f.reverseMaps {
			for i, j := 0, len(es)-1; i < j; i, j = i+1, j-1 {
				es[i], es[j] = es[j], es[i]
			}
		}
		f.sawMapRange = true
		sq := &fseq{}
		for _, e := range es {
			switch name {
			case "maps.Keys":
				sq.items = append(sq.items, []fval{fromVal(e.K)})
			case "maps.Values":
				sq.items = append(sq.items, []fval{fromVal(e.V)})
			default:
				sq.items = append(sq.items, []fval{fromVal(e.K), fromVal(e.V)})
			}
		}
		return fval{seq: sq}, true, nil
	case "slices.Values", "slices.All":
		if len(args) != 1 {
			return top, false, nil
		}
		es, ok := f.sliceElems(args[0], f.heap)
		if !ok {
			return top, false, nil
		}
		sq := &fseq{}
		for i, e := range es {
			if name == "slices.All" {
				sq.items = append(sq.items, []fval{{k: constant.MakeInt64(int64(i)), t: types.Typ[types.Int]}, e})
			} else {
				sq.items = append(sq.items, []fval{e})
			}
		}
		return fval{seq: sq}, true, nil
	case "maps.Collect":
		if len(args) != 1 || fn.Signature.Results().Len() != 1 {
			return top, false, nil
		}
		mt, ok := fn.Signature.Results().At(0).Type().Underlying().(*types.Map)
		if !ok {
			return top, false, nil
		}
		mv := &MapV{T: fn.Signature.Results().At(0).Type()}
		if f.freshMaps == nil {
			f.freshMaps, f.poisoned = map[*MapV]bool{}, map[*MapV]bool{}
		}
		f.freshMaps[mv] = true
		bad := false
		yield := fval{native: func(as []fval) (fval, bool) {
			if len(as) != 2 {
				bad = true
				return top, false
			}
			kv, ok1 := toVal(as[0], mt.Key(), f.c)
			vv, ok2 := toVal(as[1], mt.Elem(), f.c)
			if !ok1 || !ok2 {
				bad = true
				return top, false
			}
			for i, e := range mv.Entries {
				if e.K.vstr() == kv.vstr() {
					mv.Entries[i].V = vv
					return yes, true
				}
			}
			mv.Entries = append(mv.Entries, KV{K: kv, V: vv})
			return yes, true
		}}
		if err := run(args[0], yield); err != nil {
			return top, true, err
		}
		if bad {
			return top, true, fmt.Errorf("maps.Collect: a pair that is not known")
		}
		return fval{cv: mv, t: mv.T}, true, nil
	case "slices.Concat":
		// doc: a new slice concatenating the passed in slices
		if len(args) != 1 {
			return top, false, nil
		}
		nl := &ListV{T: fn.Signature.Results().At(0).Type()}
		st, ok := nl.T.Underlying().(*types.Slice)
		if !ok {
			return top, false, nil
		}
		parts, ok := f.sliceElems(args[0], f.heap)
		if !ok {
			return top, true, fmt.Errorf("slices.Concat: the list of slices is not known")
		}
		for _, p := range parts {
			es, ok := f.sliceElems(p, f.heap)
			if !ok {
				return top, true, fmt.Errorf("slices.Concat: a slice that is not known")
			}
			for _, e := range es {
				ev, ok := toVal(e, st.Elem(), f.c)
				if !ok {
					return top, true, fmt.Errorf("slices.Concat: an element that is not known")
				}
				nl.Elems = append(nl.Elems, ev)
			}
		}
		if len(nl.Elems) == 0 {
			return fval{isNil: true, t: nl.T}, true, nil
		}
		return fval{cv: nl, t: nl.T}, true, nil
	case "slices.SortedFunc", "slices.SortedStableFunc":
		// doc: collects the values of seq into a new slice and sorts it with cmp. The sort is not stable: two different
		// elements the comparator calls equal have no defined order (an error here)
		if len(args) != 2 || (args[1].fn == nil) {
			return top, false, nil
		}
		nl := &ListV{T: fn.Signature.Results().At(0).Type()}
		st, ok := nl.T.Underlying().(*types.Slice)
		if !ok {
			return top, false, nil
		}
		bad := false
		yield := fval{native: func(as []fval) (fval, bool) {
			if len(as) != 1 {
				bad = true
				return top, false
			}
			ev, ok := toVal(as[0], st.Elem(), f.c)
			if !ok {
				bad = true
				return top, false
			}
			nl.Elems = append(nl.Elems, ev)
			return yes, true
		}}
		if err := run(args[0], yield); err != nil {
			return top, true, err
		}
		if bad {
			return top, true, fmt.Errorf("%s: an element that is not known", name)
		}
		cmpf := args[1]
		shared := f.heap
		if cmpf.bind != nil && cmpf.heap != nil {
			shared = cmpf.heap
		}
		var cerr error
		less := func(a, b Val) int {
			r, err := f.foldCallEnv(cmpf.fn, []fval{fromVal(a), fromVal(b)}, cmpf.bind, shared)
			if err != nil || r.k == nil || r.k.Kind() != constant.Int {
				if cerr == nil {
					cerr = fmt.Errorf("%s: the comparator does not fold: %v", name, err)
				}
				return 0
			}
			v, _ := constant.Int64Val(r.k)
			if v == 0 && a.vstr() != b.vstr() && cerr == nil && name == "slices.SortedFunc" {
				cerr = fmt.Errorf("%s: two different elements compare equal: their order is not defined", name)
			}
			return int(v)
		}
		// insertion sort (stable), every comparison folded
		for i := 1; i < len(nl.Elems); i++ {
			for j := i; j > 0 && less(nl.Elems[j-1], nl.Elems[j]) > 0; j-- {
				nl.Elems[j-1], nl.Elems[j] = nl.Elems[j], nl.Elems[j-1]
			}
			if cerr != nil {
				return top, true, cerr
			}
		}
		if cerr != nil {
			return top, true, cerr
		}
		return fval{cv: nl, t: nl.T}, true, nil
	case "slices.Collect", "slices.AppendSeq":
		seqArg := 0
		nl := &ListV{T: fn.Signature.Results().At(0).Type()}
		if name == "slices.AppendSeq" {
			if len(args) != 2 {
				return top, false, nil
			}
			seqArg = 1
			switch {
			case args[0].isNil:
			case args[0].cv != nil:
				l, ok := args[0].cv.(*ListV)
				if !ok {
					return top, false, nil
				}
				nl.Elems = append(nl.Elems, l.Elems...)
			default:
				return top, false, nil
			}
		} else if len(args) != 1 {
			return top, false, nil
		}
		st, ok := nl.T.Underlying().(*types.Slice)
		if !ok {
			return top, false, nil
		}
		bad := false
		yield := fval{native: func(as []fval) (fval, bool) {
			if len(as) != 1 {
				bad = true
				return top, false
			}
			ev, ok := toVal(as[0], st.Elem(), f.c)
			if !ok {
				bad = true
				return top, false
			}
			nl.Elems = append(nl.Elems, ev)
			return yes, true
		}}
		if err := run(args[seqArg], yield); err != nil {
			return top, true, err
		}
		if bad {
			return top, true, fmt.Errorf("%s: an element that is not known", name)
		}
		return fval{cv: nl, t: nl.T}, true, nil
	}
	return top, false, nil
}

// dynType: the dynamic type of a value that is a pointer to a whole cell of the fold's memory (what an interface holding
// it would answer in a type switch or a method call); nil when it is not known.
func (f *folder) dynType(v fval) types.Type {
	if v.addr == nil || len(v.addr.path) != 0 || f.cellType == nil {
		return nil
	}
	return f.cellType[v.addr.base]
}

// sliceElems: the elements of a slice value, whichever way it is held (an immutable list, a slice over the fold's
// memory, nil).
func (f *folder) sliceElems(v fval, mem map[*ssa.Alloc]fval) ([]fval, bool) {
	switch {
	case v.isNil:
		return nil, true
	case v.sl != nil:
		cur, ok := mem[v.sl.base]
		for _, p := range v.sl.path {
			if !ok || cur.fields == nil {
				return nil, false
			}
			cur, ok = cur.fields[p]
		}
		if !ok || (cur.fields == nil && v.sl.n > 0) {
			return nil, false
		}
		var out []fval
		for i := 0; i < v.sl.n; i++ {
			e, has := cur.fields[fmt.Sprintf("#%d", v.sl.off+i)]
			if !has {
				return nil, false
			}
			out = append(out, e)
		}
		return out, true
	case v.cv != nil:
		if l, ok := v.cv.(*ListV); ok {
			var out []fval
			for _, e := range l.Elems {
				out = append(out, fromVal(e))
			}
			return out, true
		}
	}
	return nil, false
}
